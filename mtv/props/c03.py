"""C03 — subgraph table holds true loop number, spanning flag, degree of divergence."""
from fractions import Fraction
from itertools import combinations_with_replacement
from ..core import f2b, b2f, run_harness, run_driver
from ..cmp import cmp_record, bits_close
from .. import gen, oracle, graphs

MODULE = "Momtrop.Props.C03Mono"
THEOREMS = ["Momtrop.C03.fromGraph_fields", "Momtrop.C03.genDod_empty", "Momtrop.C03.genDod_nonempty", "Momtrop.C03.preEntry_flags", "Momtrop.C03.numVariables_eq", "Momtrop.C03.spanning_iff", "Momtrop.C03.spanning_nil", "Momtrop.C03.loopNumber_nil", "Momtrop.C03.component_search_exact", "Momtrop.C03.first_component", "Momtrop.C03.components_are_classes", "Momtrop.C03.same_component_iff", "Momtrop.C03.component_mask_bits", "Momtrop.C03.loopNumber_is_cyclomatic", "Momtrop.C03.subset_edges_ok", "Momtrop.C03.weightSum_pop", "Momtrop.C03.genDod_step", "Momtrop.C03.genDod_step_bool", "Momtrop.componentLists_length", "Momtrop.loopNumber_erase", "Momtrop.C01.loopsT_step", "Momtrop.C01.spanT_mono", "Momtrop.C01.removalFacts_fromGraph"]
RULE = ("(i) every multigraph with E<=3 (quick) / E<=4 (thorough) edges on 4 vertex slots incl. self-loops and parallel edges, "
        "random u8 relabelling, several mass patterns and external sets (incl. an untouched vertex), all 2^E subsets via the "
        "hook; (ii) catalogue + random graphs up to E=6 (quick) / 8 (thorough), D=1..6, accepted ones through the full table. "
        "Non-trivial: >=2 edges and (parallel edge or self-loop or >=2 components or mixed masses or externals != touched vertices)"
        " (iii) public getters (get_num_edges, iter_edge_weights, get_dod, get_dimension) of samplers built through Graph::build_sampler with a fundamental, an over-long, a short and an empty signature; tiny-weight variants; vertex labels colliding modulo powers of two, labels 0 and 255, duplicate entries in `externals`; the table correspondence with the model is bit for bit.")
ASSUMPTIONS = ["generalized_dod compared with the exact rational value with tolerance (E+4) eps x (subset weight sum + loops D/2 [+ |dod| + total weight sum + L D/2 when spanning])"]


def exhaustive_graphs(max_e):
    pairs = [(a, b) for a in range(4) for b in range(a, 4)]
    for k in range(1, max_e + 1):
        for combo in combinations_with_replacement(pairs, k):
            yield list(combo)


def run(ctx):
    rng = ctx.rng
    # ---------------- (i) exhaustive small multigraphs through the hook, all subsets
    reqs, infos = [], []
    max_e = 3 if ctx.quick else 4
    combos = 2 if ctx.quick else 4
    for base in exhaustive_graphs(max_e):
        for _ in range(combos):
            edges, labels, unused = gen.relabel(rng, base, extra_vertices=1)
            n = len(edges)
            massive = [rng.random() < 0.4 for _ in range(n)]
            verts = sorted(set(v for e in edges for v in e))
            ext = [v for v in verts if rng.random() < 0.6]
            if rng.random() < 0.15:
                ext.append(unused[0])
            if rng.random() < 0.1:
                ext = []
            weights = [rng.randint(2, 30) / 12.0 for _ in range(n)]
            r = gen.graph_request(edges, weights, massive, ext, 4); r["op"] = "subsets"
            reqs.append(r); infos.append((edges, weights, massive, ext))
    impl = run_harness(reqs)
    model = run_driver(reqs)
    for r, a, m, (edges, weights, massive, ext) in zip(reqs, impl, model, infos):
        n = len(edges)
        case = dict(edges=edges, massive=massive, ext=ext)
        ctx.case(r, nontrivial=graphs.nontrivial_graph(case), sample={"edges": edges, "massive": massive, "ext": ext, "impl_loops": a.get("loops"), "impl_mms": a.get("mms")} if n == 3 else None)
        ctx.count(f"small.E={n}")
        if not cmp_record(ctx, "components/loopNumber/isMMSpanning model vs hooks (all subsets)", r, a, m,
                          {"comps": "exact", "loops": "exact", "mms": "exact", "wsum": ("ulp", 0)}):
            pass
        if a.get("status") == "panic" or "loops" not in a:
            ctx.violation("panic while analysing a subset", r, observed=a); continue
        for mask in range(1 << n):
            loops, comps, sp = oracle.subset_info(edges, massive, ext, mask)
            exp_comps = sorted(sum(1 << e for e in c) for c in comps)
            if a["loops"][mask] != loops or a["mms"][mask] != sp or sorted(a["comps"][mask]) != exp_comps:
                ctx.violation(f"subset {mask:#b}: loop number/spanning/components differ from the union-find oracle", r,
                              expected={"loops": loops, "mms": sp, "comps": exp_comps},
                              observed={"loops": a["loops"][mask], "mms": a["mms"][mask], "comps": a["comps"][mask]})
                break
        else:
            # premise of the sector-density theorem (C01Sector.Consistent): removing one edge lowers the loop number by 0 or 1 and can
            # only LOSE the spanning property - on the implementation's own flags, every subset and every edge of it
            for mask in range(1, 1 << n):
                for e in range(n):
                    if mask >> e & 1:
                        sub = mask & ~(1 << e)
                        ctx.count("removal_steps_checked")
                        if a["loops"][mask] - a["loops"][sub] not in (0, 1) or (a["mms"][sub] and not a["mms"][mask]):
                            ctx.violation(f"removing edge {e} from subset {mask:#b}: loop number {a['loops'][mask]} -> {a['loops'][sub]}, "
                                          f"spanning {a['mms'][mask]} -> {a['mms'][sub]} (a removal lowers the loop number by 0 or 1 and never gains spanning)",
                                          r, observed={"loops": [a["loops"][mask], a["loops"][sub]], "mms": [a["mms"][mask], a["mms"][sub]]})
                            break
    # ---------------- (i') long chains and many components (the component search re-queues edges: its work list grows geometrically along a
    # path; 10..12 edges in a row, a ring of 12, 15 isolated edges next to a bubble), single subsets through the hook, union-find oracle
    creqs, cinfo = [], []
    for nE in (10, 11, 12):
        path = [(i, i + 1) for i in range(nE)]
        for edges in (path, list(reversed(path)), [path[i] for i in rng.sample(range(nE), nE)]):
            for subset in (list(range(nE)), [e for e in range(nE) if e != nE // 2], [e for e in range(nE) if e % 4 != 3]):
                massive = [rng.random() < 0.2 for _ in range(nE)]
                ext = rng.choice([[0, nE], [0], [edges[0][0], edges[-1][1]], [3, 7]])
                creqs.append(dict(gen.graph_request(edges, [1.0] * nE, massive, ext, 4), op="comps", subset=subset)); cinfo.append((edges, massive, ext, subset))
    ring = [(i, (i + 1) % 12) for i in range(12)]
    creqs.append(dict(gen.graph_request(ring, [1.0] * 12, [False] * 12, [0, 6], 4), op="comps", subset=list(range(12)))); cinfo.append((ring, [False] * 12, [0, 6], list(range(12))))
    many = [(2 * i, 2 * i + 1) for i in range(15)] + [(40, 41), (40, 41)]
    for subset in (list(range(17)), list(range(16)), [e for e in range(17) if e % 3], list(range(2, 17))):
        creqs.append(dict(gen.graph_request(many, [1.0] * 17, [False] * 17, [40, 41], 4), op="comps", subset=subset)); cinfo.append((many, [False] * 17, [40, 41], subset))
    for r, a, (edges, massive, ext, subset) in zip(creqs, run_harness(creqs, timeout=900), cinfo):
        ctx.case(["long", r["edges"], subset, ext], nontrivial=True); ctx.count("long_chain_or_many_components")
        small = dict(r, note="single subset through the hook")
        if "comps" not in a:
            ctx.violation(f"component analysis of a {len(subset)}-edge subset failed: {str(a)[:200]}", small, observed=a); continue
        mask = sum(1 << e for e in subset)
        loops, comps, sp = oracle.subset_info(edges, massive, ext, mask)
        exp_comps = sorted(sum(1 << e for e in c) for c in comps)
        if a["loops"] != loops or a["mms"] != sp or sorted(a["comps"]) != exp_comps:
            ctx.violation(f"{len(subset)}-edge subset of a {len(edges)}-edge graph: loop number/spanning/components ({a['loops']}, {a['mms']}, {len(a['comps'])} components) "
                          f"differ from the union-find oracle ({loops}, {sp}, {len(exp_comps)} components)", small,
                          expected={"loops": loops, "mms": sp, "comps": exp_comps}, observed={"loops": a["loops"], "mms": a["mms"], "comps": sorted(a["comps"])})
    # ---------------- (ii) full tables
    cases = graphs.case_stream(rng, 60 if ctx.quick else 500, max_e=6 if ctx.quick else 8, accepted_fraction=0.85)
    # vertex labels that differ by exactly a power of two (8..128), in every run
    for nm, edges in gen.collision_labelled(rng):
        for _ in range(2):
            c2 = graphs.make_case(rng, edges, rng.randint(1, 6), want=True)
            if c2 is not None:
                c2 = dict(c2); c2["name"] = nm; cases.append(c2)
    # variants with one tiny propagator power (a generalised dod far below f64::EPSILON is still a positive number, not zero)
    for c0 in list(cases[: (10 if ctx.quick else 60)]):
        w = list(c0["weights"]); w[rng.randrange(len(w))] = 10.0 ** -rng.uniform(17, 300)
        dod, Lf, table = oracle.table_oracle(c0["edges"], w, c0["massive"], c0["ext"], c0["D"])
        cases.append(dict(c0, weights=w, dod=dod, loops=Lf, table=table, accepted=not oracle.divergent_subsets(table), name=c0.get("name", "") + "+tiny_weight"))
    # weight sums a few ulps away from D L/2 (overall dod ~ +-1e-16, not 0) and from the value that makes a SUBGRAPH logarithmic:
    # the stored numbers are the rounded differences themselves, never snapped to 0
    import math
    for c0 in list(cases[: (12 if ctx.quick else 80)]):
        n0 = len(c0["edges"])
        if n0 < 2:
            continue
        w = [rng.choice([0.3, 0.6, 0.7, 0.9, 1.1, 1.3]) + 0.1 * rng.randint(0, 3) for _ in range(n0)]
        target = c0["D"] * c0["loops"] / 2.0 + rng.choice([0.0, 0.0, 1.0])
        rest = math.fsum(w[:-1])
        last = target - rest
        if last <= 0.05:
            continue
        for _ in range(rng.randint(0, 3)):
            last = math.nextafter(last, rng.choice([0.0, 10.0]))
        w[-1] = last
        dod, Lf, table = oracle.table_oracle(c0["edges"], w, c0["massive"], c0["ext"], c0["D"])
        cases.append(dict(c0, weights=w, dod=dod, loops=Lf, table=table, accepted=not oracle.divergent_subsets(table), name="near_integer_dod"))
    # propagator powers far BELOW D/2 per loop (overall dod negative, every generalised dod dominated by the - L D/2 + |dod| terms): the order
    # of the two subtractions in `w - L D/2 - dod` is then visible in the last bits, and the full graph's entry is exactly 0 only in that order
    for _ in range(8 if ctx.quick else 40):
        name = rng.choice(["sunrise", "banana4", "double_triangle", "bubble", "triangle", "kite"])
        edges, mp, _ = gen.relabel(rng, list(gen.CATALOGUE[name]))
        nE = len(edges)
        D = rng.choice([3, 5, 6, 6])
        w = [rng.choice([0.1, 0.3, 0.4, 0.45, 0.15, 0.7, 0.35]) for _ in range(nE)]
        massive = [False] * nE
        ext = list(mp)
        dod, Lf, table = oracle.table_oracle(edges, w, massive, ext, D)
        cases.append(dict(edges=edges, weights=w, massive=massive, ext=ext, D=D, dod=dod, loops=Lf, table=table,
                          accepted=not oracle.divergent_subsets(table), name="small_weights"))
    # `externals` lists with 64 and more entries (labels are u8: detached labels and repeated entries are legal)
    for c0 in list(cases[: (6 if ctx.quick else 30)]):
        verts = sorted(set(v for e in c0["edges"] for v in e))
        for mode in ("detached", "repeated"):
            if mode == "detached":
                pool = [v for v in range(256) if v not in verts]
                rng.shuffle(pool)
                ext = list(c0["ext"]) + pool[: rng.choice([64, 65, 70, 130]) - len(c0["ext"])]
            else:
                if not c0["ext"]:
                    continue
                ext = [rng.choice(c0["ext"]) for _ in range(rng.choice([64, 65, 100]))] + list(c0["ext"])
            rng.shuffle(ext)
            dod, Lf, table = oracle.table_oracle(c0["edges"], c0["weights"], c0["massive"], ext, c0["D"])
            cases.append(dict(c0, ext=ext, dod=dod, loops=Lf, table=table, accepted=not oracle.divergent_subsets(table), name="many_externals_" + mode))
    reqs = [graphs.request(c) for c in cases]
    impl = run_harness(reqs)
    model = run_driver([dict(r, gammas=a.get("gammas", [])) for r, a in zip(reqs, impl)])
    for c, r, a, m in zip(cases, reqs, impl, model):
        n = len(c["edges"])
        ctx.case(r, nontrivial=graphs.nontrivial_graph(c), sample=None)
        ctx.count(f"table.{a.get('status')}"); ctx.count(f"D={c['D']}"); ctx.count(f"graph.{c['name']}")
        cmp_record(ctx, "fromGraph/generateTable model vs from_graph/generate_from_tropical", r, a, m,
                   {"dod": ("ulp", 4), "numLoops": "exact", "numMassive": "exact", "numVars": "exact"})
        if a.get("status") == "panic":
            ctx.violation("build panicked", r, observed=a); continue
        scale = float(sum(abs(w) for w in c["weights"])) + c["loops"] * c["D"]
        if not bits_close(a["dod"], f2b(float(c["dod"])), 4, absol=1e-12 * scale) or a["numLoops"] != c["loops"] \
                or a["numMassive"] != sum(c["massive"]):
            ctx.violation("dod / loop count / massive-edge count disagree with the input graph", r,
                          expected={"dod": float(c["dod"]), "loops": c["loops"]}, observed=a); continue
        if a.get("status") != "ok":
            continue
        L, D = c["loops"], c["D"]
        if a["numVars"] != 2 * n - 1 + D * L + (D * L) % 2:
            ctx.violation("hypercube dimension differs from 2E-1+DL+(DL mod 2)", r, expected=2 * n - 1 + D * L + (D * L) % 2, observed=a["numVars"])
        EPS = 2.0 ** -52
        wall = float(sum(abs(w) for w in c["weights"]))

        def entry_tol(mask, sp):
            """rounding of omega = (sum of the subset's weights) - loops*D/2 - [spanning] dod, each computed in f64"""
            ws = sum(abs(c["weights"][e]) for e in range(n) if mask >> e & 1)
            return (n + 4) * EPS * (ws + c["table"][mask][0] * D / 2.0 + ((abs(float(c["dod"])) + wall + L * D / 2.0) if sp else 0.0))
        if m.get("status") == "ok":
            for mask, (ea, em) in enumerate(zip(a["entries"], m["entries"])):
                # the model mirrors the order of the code's additions: bit for bit (the exact oracle below is compared with a tolerance)
                if ea[0] != em[0] or ea[1] != em[1] or not bits_close(ea[3], em[3], 0):
                    ctx.mismatch("table entry (loop_number, spanning, generalized_dod) model vs implementation", r,
                                 {"mask": mask, "entry": ea}, {"mask": mask, "entry": em}); break
        for mask, ea in enumerate(a["entries"]):
            loops, sp, om, _ = c["table"][mask]
            if ea[0] != loops or ea[1] != sp or not bits_close(ea[3], f2b(float(om)), 4, absol=entry_tol(mask, sp)):
                ctx.violation(f"table entry of subset {mask:#b} differs from the exact oracle", r,
                              expected={"loops": loops, "mms": sp, "omega": float(om)},
                              observed={"loops": ea[0], "mms": ea[1], "omega": b2f(ea[3])}); break

    # ---------------- (iii) the public getters of a sampler built through Graph::build_sampler (whatever signature is supplied:
    # build_sampler does not look at its shape, and the getters describe the GRAPH)
    from .. import kin
    acc = [(c, a) for c, a in zip(cases, impl) if a.get("status") == "ok" and c.get("accepted")][: (25 if ctx.quick else 150)]
    breqs, binfo = [], []
    for c, a in acc:
        n = len(c["edges"])
        Sg, _ = kin.fundamental_signature(rng, c["edges"])
        L = len(Sg[0]) if Sg else 0
        for variant, sig in (("fundamental", Sg), ("extra_row", Sg + [[0] * L]), ("missing_row", Sg[:-1]), ("empty", []),
                             ("extra_column", [row + [0] for row in Sg]), ("two_extra_columns", [row + [1, -1] for row in Sg]),
                             ("missing_column", [row[:-1] for row in Sg])):
            breqs.append(dict(graphs.request(c), op="build", sig=sig)); binfo.append((c, a, variant))
    for r, b, (c, a, variant) in zip(breqs, run_harness(breqs), binfo):
        n = len(c["edges"])
        ctx.case(["getters", r["edges"], r["ext"], r["D"], variant], nontrivial=True); ctx.count(f"getters.{variant}")
        if b.get("status") != "ok":
            ctx.violation(f"build_sampler fails ({b.get('status')}) for an accepted graph with a {variant} signature: {str(b.get('msg'))[:100]}", r, observed=b); continue
        exp_dim = 2 * n - 1 + c["D"] * c["loops"] + (c["D"] * c["loops"]) % 2
        problems = []
        if b["numEdges"] != n:
            problems.append(f"get_num_edges() = {b['numEdges']}, the graph has {n} edges")
        if b["weights"] != [f2b(w) for w in c["weights"]]:
            problems.append("iter_edge_weights() differs from the input weights")
        if b["dod"] != a["dod"]:
            problems.append(f"get_dod() = {b2f(b['dod'])!r} differs from the table's overall degree of divergence {b2f(a['dod'])!r}")
        if b["dimension"] != exp_dim:
            problems.append(f"get_dimension() = {b['dimension']}, expected 2E-1+DL+(DL mod 2) = {exp_dim}")
        if problems:
            ctx.violation("public getters disagree with the input graph (signature variant %s): %s" % (variant, "; ".join(problems)), r, observed=problems)

