"""C01 — the Monte Carlo estimator is unbiased: mean weight equals the Feynman integral."""
import math
from fractions import Fraction
from ..core import f2b, b2f, run_harness, run_driver
from .. import samples as S, sample_checks as SC, graphs, gen, kin

MODULE = "Momtrop.Props.C03Mono"
THEOREMS = ["Momtrop.C01.det_momentum_map", "Momtrop.C01.inverse_cdf_law", "Momtrop.C01.xi_power_law", "Momtrop.C01.reduction", "Momtrop.C01.chain_law", "Momtrop.C01.dens_closed", "Momtrop.C01.abel_tropical", "Momtrop.C01.dens_tropical", "Momtrop.C01.sector_density_times_prob", "Momtrop.C01.sector_expectation", "Momtrop.C01.tropical_sampling", "Momtrop.C01.consistent_along", "Momtrop.C01.tropical_sampling_table", "Momtrop.C01.spanT_mono", "Momtrop.C01.removalFacts_of_loops", "Momtrop.loopNumber_erase", "Momtrop.C01.loopsT_step", "Momtrop.C01.removalFacts_fromGraph", "Momtrop.C01.tropical_sampling_model"]
RULE = ("(i) end-to-end correspondence of sample (all fields) on multi-loop, massive, unequal-weight, D=1..6, non-trivial-routing inputs; "
        "(ii) SUPPORTING TEST, not a proof: fixed-seed Monte Carlo means against closed forms - mean(jacobian) for the massive tadpole, "
        "equal-mass bubble at zero momentum and the two-tadpole product (two routings), and mean(jacobian * g) with "
        "g = prod_e (q_e^2+m_e^2)^{w_e} exp(-alpha sum k_l^2), whose exact value is (pi/alpha)^{DL/2} for EVERY graph, kinematics and "
        "routing (triangle, massive sunrise with k1+k2 and k1-k2 routings, double triangle, 3-loop banana). 6-sigma band from the measured "
        "variance. Non-trivial: each family x routing")
ASSUMPTIONS = ["statistical test with a 6 sigma band of the measured variance plus 0.5% (heavy tails of the test function); fixed seeds"]


def table_for(edges, weights, massive, ext, D):
    r = gen.graph_request(edges, weights, massive, ext, D)
    a = run_harness([r])[0]
    return a


def mc_case(name, edges, weights, masses, ext, D, sig, shifts, expect_jac=None, alpha=1.0, flags=None):
    """`flags`: the is_massive flags given to the graph (they steer the importance sampling only); default: an edge is flagged
    massive iff a mass is supplied for it"""
    return dict(name=name, edges=edges, weights=weights, masses=masses, ext=ext, D=D, sig=sig, shifts=shifts,
                expect_jac=expect_jac, alpha=alpha, flags=flags if flags is not None else [m is not None for m in masses])


def tadpole_value(nu, m, D):
    return math.pi ** (D / 2) * math.gamma(nu - D / 2) / math.gamma(nu) * m ** (D - 2 * nu)


def run(ctx):
    rng = ctx.rng
    # ---- (i) end-to-end correspondence
    ss = S.generate(ctx, 16 if ctx.quick else 150, 4 if ctx.quick else 8, max_e=6 if ctx.quick else 8, max_loops=3 if ctx.quick else 5,
                    routings_per_graph=2, kinds=("uniform", "corner", "tiny_xi", "edge1"))
    # multi-loop graphs at strongly hierarchical points (sub-graphs with small degree of divergence make the parameters span many decades)
    ss += S.generate(ctx, 6 if ctx.quick else 40, 6, max_e=5, max_loops=3, routings_per_graph=1, kinds=("corner", "corner", "tiny_xi"),
                     names=["sunrise", "banana4", "double_triangle", "bubble_chain", "kite"])
    ss += S.generate(ctx, 2 if ctx.quick else 6, 6, max_e=8, max_loops=7, routings_per_graph=2, names=["banana8"], kinds=("uniform", "corner"))
    # exact coincidences among the propagator powers (repeated at non-adjacent positions; equal to the overall dod)
    ss += S.generate(ctx, 0, 2, routings_per_graph=1, kinds=("uniform",), special=("repeated_weights", "weights_equal_dod") * (3 if ctx.quick else 10))
    # as many edges as loops (bouquets of self-loops): the signature is a square matrix, and non-symmetric bases must be read edge by edge
    ss += S.generate(ctx, 4 if ctx.quick else 16, 2, max_e=4, max_loops=3, routings_per_graph=4, names=["tadpole_pair", "rose3"], mass_mode="all")
    # vacuum graphs with some but not all edges massive
    ss += S.generate(ctx, 0, 3, routings_per_graph=1, kinds=("uniform",), special=("vacuum_mixed",) * (4 if ctx.quick else 16))
    # disconnected graphs (a product of integrals): loops = E - V + components
    ss += S.generate(ctx, 0, 3, routings_per_graph=1, kinds=("uniform",), special=("disconnected",) * (4 if ctx.quick else 16))
    # raised propagators: Gamma(dod) and prod Gamma(w) beyond 1e100, the normalisation itself an ordinary number
    from .. import oracle as O_
    big = []
    for edges, w, massive, ext, D in (([(0, 0)], [90.0], [True], [0], 3), ([(0, 1), (0, 1)], [60.0, 60.0], [True, True], [0, 1], 3),
                                      ([(0, 1), (0, 1)], [45.5, 50.25], [True, True], [0, 1], 4)):
        dod, Lf, table = O_.table_oracle(edges, w, massive, ext, D)
        if not O_.divergent_subsets(table):
            big.append(dict(edges=edges, weights=w, massive=massive, ext=ext, D=D, table=table, dod=dod, loops=Lf, accepted=True, name="raised_propagators"))
    ss += S.samples_for_cases(ctx, big, 2)
    S.run(ss)
    SC.corr_sample(ctx, ss)
    SC.normalisation_oracle(ctx, ss)
    SC.divergent_probe(ctx)
    SC.rng_entry_agreement(ctx, ss[:: 5], k=8)        # the Monte Carlo entry point: same numbers, same outcome, nothing redrawn
    SC.generic_scalar_guard(ctx, ss[:: 7], k=8)
    for s in ss:
        c, r, a = s["case"], s["routing"], s["impl"]
        ctx.case([s["req"]["x"], c["edges"], c["weights"], c["D"], r["sig"], s["req"]["edge_data"]],
                 nontrivial=(r["L"] >= 2 and (any(c["massive"]) or r["nonfundamental"])), sample=None)
        ctx.count(f"e2e.L={r['L']}"); ctx.count(f"e2e.status.{a.get('status')}")
        if a.get("status") == "panic":
            ctx.violation("sample panicked", S.small_req(s), observed=a)
        if a.get("status") == "zerodet":
            # a rejected point is dropped from the Monte Carlo mean: legitimate only if the L matrix really is (numerically) singular
            xb = (a.get("log") or {}).get("momtrop_feynman_parameter")
            if xb and SC.finite(xb):
                xq = SC.fr_list(xb)
                if all(t > 0 for t in xq):
                    ex = SC.exact_quantities(s, xq)
                    if ex is not None and ex["det"] > 0 and float(ex["det"]) > 1e-280 and ex["cond_s"] < 10 ** 9:
                        ctx.count("e2e.zerodet_on_regular_matrix")
                        ctx.violation(f"the sample is rejected with ZeroDet although its L matrix is regular: exact det {float(ex['det']):.3e}, condition number of "
                                      f"the scaled matrix {float(ex['cond_s']):.2e}; rejected points bias the estimator", S.small_req(s),
                                      expected="a sample", observed="MatrixError(ZeroDet)")
    # ---- (i') the inverse-CDF step of the derivation: the Gamma variate of a sample satisfies P(dod, lambda) = coordinate 2E-2
    # (what makes lambda Gamma(dod)-distributed); general samplers plus samplers whose dod is close to, but not, 1
    from mpmath import mp, mpf, gammainc
    mp.dps = 30
    from .. import oracle as O
    near_one = []
    for delta in (5e-4, -5e-4, 1e-4, 2e-6, -3e-5):
        for edges, massive, ext, D, L in (([(0, 1), (1, 2), (2, 0)], [False] * 3, [0, 1, 2], 4, 1), ([(0, 1), (0, 1)], [True, True], [0, 1], 3, 1)):
            tot = L * D / 2.0 + 1.0 + delta
            w = [tot / len(edges)] * len(edges)
            dod, Lf, table = O.table_oracle(edges, w, massive, ext, D)
            if not O.divergent_subsets(table):
                near_one.append(dict(edges=edges, weights=w, massive=massive, ext=ext, D=D, table=table, dod=dod, loops=Lf, accepted=True, name="dod_near_one"))
    ls = list(ss[:: 3])
    for c, b in zip(near_one, S.build_tables(near_one)):
        if b.get("status") != "ok":
            continue
        routing = S.make_routing(rng, c, "fundamental")
        for _ in range(3):
            xs = S.point(rng, b["numVars"], "uniform")
            ls.append(dict(case=c, routing=routing, table=b["table"], built=b, xs=xs, kind="uniform", group=None,
                           req=S.sample_request(c, routing, b["table"], xs)))
    S.run([t for t in ls if "impl" not in t])
    for t in ls:
        a, c = t["impl"], t["case"]
        if a.get("status") != "ok" or not a.get("meta"):
            continue
        n_e = len(c["edges"])
        dodv, lam, pcoord = b2f(t["built"]["dod"]), b2f(a["meta"]["lambda"]), t["xs"][2 * n_e - 2]
        if not (0.05 <= dodv <= 100) or not (lam > 0) or lam != lam:
            continue
        ctx.evaluations += 1; ctx.count("lambda_is_quantile"); ctx.count("lambda.dod_near_one" if abs(dodv - 1) < 1e-3 and dodv != 1 else "lambda.other")
        P = gammainc(mpf(dodv), 0, mpf(lam), regularized=True)
        if abs(P - mpf(pcoord)) > mpf(2e-8) and lam >= 1e-13:
            ctx.violation(f"the Gamma variate of the sample is not the quantile of its coordinate: P(dod={dodv!r}, lambda={lam!r}) = {float(P)!r}, "
                          f"coordinate 2E-2 = {pcoord!r} (|difference| {float(abs(P - mpf(pcoord))):.2e} > 2e-8): lambda is not Gamma(dod) distributed",
                          S.small_req(t), expected=pcoord, observed=float(P))
    # ---- (ii) Monte Carlo means vs closed forms
    n = 150000 if ctx.quick else 2000000
    Z3 = [0.0, 0.0, 0.0]
    cases = []
    nu, m = 2.25, 1.5
    cases.append(mc_case("massive tadpole D=3", [(0, 0)], [nu], [m], [], 3, [[1]], [Z3], expect_jac=tadpole_value(nu, m, 3)))
    cases.append(mc_case("massive tadpole D=4", [(0, 0)], [2.75], [0.75], [], 4, [[1]], [[0.0] * 4], expect_jac=tadpole_value(2.75, 0.75, 4)))
    cases.append(mc_case("equal-mass bubble, zero momentum, unequal weights D=3", [(0, 1), (0, 1)], [1.25, 1.0], [1.25, 1.25], [], 3,
                         [[1], [1]], [Z3, Z3], expect_jac=tadpole_value(2.25, 1.25, 3)))
    cases.append(mc_case("equal-mass bubble, reversed edge D=3", [(0, 1), (0, 1)], [1.25, 1.0], [1.25, 1.25], [], 3,
                         [[1], [-1]], [Z3, Z3], expect_jac=tadpole_value(2.25, 1.25, 3)))
    prod = tadpole_value(2.0, 1.0, 3) * tadpole_value(2.5, 2.0, 3)
    cases.append(mc_case("two tadpoles, routing k1,k2", [(0, 0), (0, 0)], [2.0, 2.5], [1.0, 2.0], [], 3, [[1, 0], [0, 1]], [Z3, Z3], expect_jac=prod))
    cases.append(mc_case("two tadpoles, routing k1+k2,k2", [(0, 0), (0, 0)], [2.0, 2.5], [1.0, 2.0], [], 3, [[1, 1], [0, 1]], [Z3, Z3], expect_jac=prod))
    p1, p2 = [0.5, -0.25, 0.75], [-0.25, 1.0, 0.5]
    p12 = [a + b for a, b in zip(p1, p2)]
    cases.append(mc_case("massless triangle with momenta D=3", [(0, 1), (1, 2), (2, 0)], [0.75, 0.7, 0.8], [None, None, None], [0, 1, 2], 3,
                         [[1], [1], [1]], [Z3, p1, p12]))
    cases.append(mc_case("massive sunrise k1+k2 D=3", [(0, 1), (0, 1), (0, 1)], [1.2, 1.1, 1.3], [1.0, 0.5, None], [0, 1], 3,
                         [[1, 0], [0, 1], [1, 1]], [Z3, Z3, p1]))
    cases.append(mc_case("massive sunrise k1-k2 D=3", [(0, 1), (0, 1), (0, 1)], [1.2, 1.1, 1.3], [1.0, 0.5, None], [0, 1], 3,
                         [[1, 0], [0, 1], [1, -1]], [Z3, Z3, p1]))
    cases.append(mc_case("double triangle D=4", [(0, 1), (1, 2), (2, 0), (0, 3), (3, 1)], [1.0, 1.1, 0.9, 1.0, 1.2], [0.5, None, None, 1.0, None], [0, 1, 2, 3], 4,
                         [[1, 1], [1, 0], [1, 0], [0, 1], [0, 1]], [[0.0] * 4, [0.5, 0, 0.25, 0], [0.5, 0.25, 0.25, -0.5], [0.0] * 4, [0.25, 0, 0, 0.5]]))
    cases.append(mc_case("three-loop massive banana D=2", [(0, 1)] * 4, [0.9, 1.0, 1.1, 1.2], [1.0, 0.75, 1.25, 0.5], [0, 1], 2,
                         [[1, 0, 0], [0, 1, 0], [0, 0, 1], [1, 1, 1]], [[0.0, 0.0]] * 3 + [[0.5, -0.25]]))
    # the integrand is defined by the masses in edge_data, whatever the is_massive flags of the graph say
    pb = [0.75, -0.5, 0.25]
    pbn = math.sqrt(sum(t * t for t in pb))
    bub = 2 * math.pi ** 2 / pbn * math.atan(pbn / 2.0)
    cases.append(mc_case("massive bubble m=1 with momentum, flagged massive D=3", [(0, 1), (0, 1)], [1.0, 1.0], [1.0, 1.0], [0, 1], 3,
                         [[1], [1]], [Z3, pb], expect_jac=bub))
    cases.append(mc_case("massive bubble m=1 with momentum, NOT flagged massive D=3", [(0, 1), (0, 1)], [1.0, 1.0], [1.0, 1.0], [0, 1], 3,
                         [[1], [1]], [Z3, pb], expect_jac=bub, flags=[False, False]))
    treqs = [gen.graph_request(c["edges"], c["weights"], c["flags"], c["ext"], c["D"]) for c in cases]
    tabs = run_harness(treqs)
    mreqs = []
    for c, t in zip(cases, tabs):
        if t.get("status") != "ok":
            ctx.mismatch("closed-form test graph rejected by build", treqs[cases.index(c)], t, None, c["name"]); continue
        ed = [[f2b(float(m)) if m is not None else None, [f2b(float(x)) for x in sh]] for m, sh in zip(c["masses"], c["shifts"])]
        mreqs.append((c, {"op": "mc", "D": c["D"], "table": t["table"], "sig": c["sig"], "edge_data": ed, "n": n, "seed": ctx.seed % 1000 + 17,
                          "alpha": f2b(c["alpha"])}))
    res = run_harness([r for _, r in mreqs], timeout=3000)
    table = []
    for (c, r), a in zip(mreqs, res):
        ctx.case([c["name"], c["sig"]], nontrivial=True, sample={"integral": c["name"], "n": n} if len(ctx.samples) < 6 else None)
        ctx.evaluations += n; ctx.count("mc_family")
        small = dict(r, table="<table>")
        if a.get("status") != "ok":
            ctx.violation(f"Monte Carlo run failed for {c['name']}", small, observed=a); continue
        ok = a["ok"]
        L = len(c["sig"][0])
        def stat(sk, qk):
            mean = b2f(a[sk]) / ok
            var = max(b2f(a[qk]) / ok - mean * mean, 0.0)
            return mean, math.sqrt(var / ok)
        mj, sj = stat("sum_jac", "sumsq_jac")
        mg, sg = stat("sum_gj", "sumsq_gj")
        exg = (math.pi / c["alpha"]) ** (c["D"] * L / 2)
        row = {"integral": c["name"], "mean_jac": mj, "sigma_jac": sj, "expected_jac": c["expect_jac"], "mean_jac_g": mg, "sigma_jac_g": sg,
               "expected_jac_g": exg, "errors": a["err"], "nonfinite": a["nonfinite"]}
        table.append(row)
        ctx.count("mc_points_with_error_or_nonfinite_weight", a["err"] + a["nonfinite"])
        if a["err"] + a["nonfinite"] > 0.05 * n:
            ctx.violation(f"{c['name']}: {a['err']} sampling errors and {a['nonfinite']} non-finite weights in {n} points", small, observed=row)
        if c["expect_jac"] is not None and abs(mj - c["expect_jac"]) > 6 * sj + 0.005 * abs(c["expect_jac"]):
            ctx.violation(f"{c['name']}: mean jacobian {mj!r} +- {sj:.2e} differs from the closed form {c['expect_jac']!r}", small, expected=c["expect_jac"], observed=row)
        if abs(mg - exg) > 6 * sg + 0.005 * exg:
            ctx.violation(f"{c['name']}: mean of jacobian*g(k) = {mg!r} +- {sg:.2e} differs from (pi/alpha)^(DL/2) = {exg!r}", small, expected=exg, observed=row)
    ctx.extra["monte_carlo"] = table
