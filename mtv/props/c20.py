"""C20 — Vector and f64 scalar primitives implement their componentwise definitions."""
import math, struct
import numpy as np
from ..core import f2b, b2f, run_harness, run_driver, ulp_diff
from ..cmp import cmp_record, bits_close

MODULE = "Momtrop.Props.C20"
THEOREMS = ["Momtrop.C20.add_get", "Momtrop.C20.add_length", "Momtrop.C20.sub_get", "Momtrop.C20.sub_length",
            "Momtrop.C20.addAssign_get", "Momtrop.C20.smul_get", "Momtrop.C20.smul_length",
            "Momtrop.C20.zeros_get", "Momtrop.C20.zeros_length", "Momtrop.C20.squared_eq_dot",
            "Momtrop.C20.dot_cons", "Momtrop.C20.dot_eq_range_fold", "Momtrop.C20.dot_comm"]
RULE = ("vector ops for D=1..8 with components drawn from {random finite, +-0, subnormal, +-max, overflowing, "
        "inf, NaN} and every f64 MomTropFloat method on random and special arguments; a case is non-trivial "
        "when an operand is a special value or D>=2; distinct = distinct request"
        " Also: signed-zero corpus (bit comparisons distinguish +0.0 from -0.0), fixed corpus of scalar arguments (powf at -0.0 and integral/half-integral exponents, exp near the underflow boundary, inv of subnormals), wrong-length constructor input, operand roles with a left-tagged scalar type.")
ASSUMPTIONS = ["oracle for transcendental f64 methods is numpy/libm within 2 ulp; + - * / sqrt, from_isize, inv are compared exactly"]

SPECIAL = [0.0, -0.0, 5e-324, -5e-324, 2.2250738585072014e-308, 1.7976931348623157e308, -1.7976931348623157e308,
           1e308, 1e-320, 1.0, -1.0, 0.5, 2.0, float("inf"), float("-inf"), float("nan"), 1 - 2**-53, 1 + 2**-52,
           3.0, 1e16, 9007199254740993.0]


def rnd(rng):
    c = rng.random()
    if c < 0.25:
        return rng.choice(SPECIAL)
    if c < 0.6:
        return rng.uniform(-10, 10)
    if c < 0.8:
        return math.ldexp(rng.uniform(-1, 1), rng.randint(-1070, 1020))
    return b2f(rng.getrandbits(64))


def is_special(x):
    return x == 0 or math.isnan(x) or math.isinf(x) or abs(x) < 2.3e-308 or abs(x) > 1e300


def vec_oracle(fn, D, a, b, s):
    with np.errstate(all="ignore"):
        A, B, S = np.array(a, dtype=np.float64), np.array(b, dtype=np.float64), np.float64(s)
        if fn in ("add", "addassign"):
            return list(A + B)
        if fn == "sub":
            return list(A - B)
        if fn in ("muls", "mulr"):
            return list(A * S)
        if fn == "dot":
            acc = np.float64(0.0)
            for x, y in zip(A, B):
                acc = acc + x * y
            return [acc]
        if fn == "squared":
            acc = np.float64(0.0)
            for x in A:
                acc = acc + x * x
            return [acc]
        if fn in ("new", "new_from_num"):
            return [0.0] * D
        if fn == "roundtrip":
            return list(A)
    raise ValueError(fn)


def f64_oracle(fn, x, y, n):
    with np.errstate(all="ignore"):
        X, Y = np.float64(x), np.float64(y)
        tbl = {"ln": lambda: np.log(X), "exp": lambda: np.exp(X), "cos": lambda: np.cos(X), "sin": lambda: np.sin(X),
               "sqrt": lambda: np.sqrt(X), "abs": lambda: np.abs(X), "inv": lambda: np.float64(1.0) / X,
               "powf": lambda: np.power(X, Y), "from_isize": lambda: np.float64(n), "from_f64": lambda: X,
               "to_f64": lambda: X, "PI": lambda: np.float64(math.pi), "zero": lambda: np.float64(0.0),
               "one": lambda: np.float64(1.0)}
        return float(tbl[fn]())


EXACT_FNS = {"sqrt", "abs", "inv", "from_isize", "from_f64", "to_f64", "PI", "zero", "one"}


def run(ctx):
    rng = ctx.rng
    reqs = []
    nvec = 800 if ctx.quick else 6000
    for D in range(1, 9):
        for fn in ["add", "sub", "muls", "mulr", "addassign", "dot", "squared", "new", "new_from_num", "roundtrip"]:
            for _ in range(nvec // 10):
                if rng.random() < 0.5:   # ordinary magnitudes: every rounding of the accumulation matters
                    a = [rng.uniform(-10, 10) for _ in range(D)]
                    b = [rng.uniform(-10, 10) for _ in range(D)]
                else:
                    a = [rnd(rng) for _ in range(D)]
                    b = [rnd(rng) for _ in range(D)]
                s = rnd(rng)
                reqs.append({"op": "vec", "fn": fn, "D": D, "a": [f2b(v) for v in a], "b": [f2b(v) for v in b], "s": f2b(s)})
    # signed zeros: accumulations that stay at +-0.0 (the sign of the result shows whether the sum starts from zero() and in which order)
    for D in range(1, 9):
        for fn in ["dot", "squared", "add", "sub", "muls", "addassign"]:
            for za in (0.0, -0.0):
                for sb in (-1.0, 1.0):
                    a = [za] * D
                    b = [sb * rng.uniform(0.5, 3) for _ in range(D)]
                    reqs.append({"op": "vec", "fn": fn, "D": D, "a": [f2b(v) for v in a], "b": [f2b(v) for v in b], "s": f2b(-0.0)})
                    reqs.append({"op": "vec", "fn": fn, "D": D, "a": [f2b(v) for v in b], "b": [f2b(v) for v in a], "s": f2b(0.0)})
            mixed = [rng.choice([0.0, -0.0]) for _ in range(D)]
            reqs.append({"op": "vec", "fn": fn, "D": D, "a": [f2b(v) for v in mixed], "b": [f2b(rng.choice([0.0, -0.0, -2.0])) for _ in range(D)], "s": f2b(-1.0)})
    nf = 3000 if ctx.quick else 100000
    fns = ["ln", "exp", "cos", "sin", "sqrt", "abs", "inv", "powf", "from_isize", "from_f64", "to_f64", "PI", "zero", "one"]
    for i in range(nf):
        fn = fns[i % len(fns)]
        x, y = rnd(rng), rnd(rng)
        if fn in ("cos", "sin") and not math.isnan(x) and not math.isinf(x) and rng.random() < 0.7:
            x = rng.uniform(-100, 100)
        if fn == "powf" and rng.random() < 0.7:
            x, y = rng.uniform(0, 10), rng.uniform(-20, 20)
            if rng.random() < 0.4:      # integral and half-integral exponents (D/2, integer degrees of divergence)
                y = float(rng.randint(-40, 40)) / 2
                if rng.random() < 0.3:
                    x = -x
        c = rng.random()
        n = rng.randint(-10, 10) if c < 0.3 else rng.randint(-2**53, 2**53) if c < 0.6 else rng.randint(-2**63, 2**63 - 1)
        reqs.append({"op": "f64", "fn": fn, "x": f2b(x), "y": f2b(y), "n": n})
    # dimensions beyond the usual ones, around multiples of 16 (D is an unbounded const generic; blocked or unrolled loops have their seams there)
    for D in (13, 16, 17, 32, 48):
        for fn in ["add", "sub", "muls", "mulr", "addassign", "dot", "squared", "new", "new_from_num", "roundtrip"]:
            for _ in range(4 if ctx.quick else 30):
                a = [rng.uniform(-10, 10) for _ in range(D)]; b = [rng.uniform(-10, 10) for _ in range(D)]
                reqs.append({"op": "vec", "fn": fn, "D": D, "a": [f2b(v) for v in a], "b": [f2b(v) for v in b], "s": f2b(rnd(rng))})
    # inv at every power of two from the smallest subnormal to 2^1023, both signs (1/x is exact there, or a subnormal/overflow)
    for k in list(range(-1074, -1015)) + list(range(-8, 9)) + list(range(1015, 1024)):
        for sg in (1.0, -1.0):
            reqs.append({"op": "f64", "fn": "inv", "x": f2b(sg * math.ldexp(1.0, k)), "y": f2b(0.0), "n": 0})
    # vectors whose components are all equal (zero shifts, unit vectors, ...): every partial sum is still rounded in turn
    for D in range(1, 9):
        for fn in ["squared", "dot", "add", "muls"]:
            for _ in range(12 if ctx.quick else 80):
                v = rng.choice([rng.uniform(-3, 3), 0.1 * rng.randint(1, 40), 1.0 / rng.randint(3, 19)])
                w = v if fn != "dot" or rng.random() < 0.5 else rng.uniform(-3, 3)
                reqs.append({"op": "vec", "fn": fn, "D": D, "a": [f2b(v)] * D, "b": [f2b(w)] * D, "s": f2b(rng.uniform(-3, 3))})
    # powf at the exponents the sampler uses most (D/2 and 1/omega: 2, 1, 3, 0.5, 1.5, 4, ...) on many ordinary bases: x^2 is NOT x*x
    # in the last bit for the platform's pow, so a special case for an exponent shows on a fraction of a percent of the bases
    for y in (2.0,) * 12 + (3.0, 3.0, 4.0, 4.0, 0.5, 1.5, 1.0, -1.0, -2.0, 2.5):
        for _ in range(700 if ctx.quick else 6000):
            reqs.append({"op": "f64", "fn": "powf", "x": f2b(rng.uniform(0, 10) if rng.random() < 0.8 else 10.0 ** rng.uniform(-20, 20)), "y": f2b(y), "n": 0})
    # exp just below the overflow threshold ln(f64::MAX) = 709.7827...
    for _ in range(40 if ctx.quick else 400):
        reqs.append({"op": "f64", "fn": "exp", "x": f2b(rng.uniform(700.0, 709.78) * rng.choice([1, 1, -1])), "y": f2b(0.0), "n": 0})
    # fixed corpus of scalar arguments at which shortcuts and "guards" differ from the standard library
    for fn, xs_, ys_ in (("powf", [0.0, -0.0, 1.0, -1.0, 2.0, 4.0, 0.25, 1e-300, 1e300, float("inf"), float("-inf")],
                          [0.5, -0.5, 2.0, -2.0, 3.0, 4.0, -4.0, 1.0, 0.0, 1.5, 0.25, 1 / 3, 1e-3]),
                         ("exp", [-708.0, -708.3, -708.39, -708.4, -709.0, -710.0, -720.0, -740.0, -745.0, -745.13, -745.2, -746.0, 709.0, 709.78, 709.79, 710.0, -0.0], [0.0]),
                         ("ln", [0.0, -0.0, 5e-324, 1e-320, 1.0, float("inf"), -1.0], [0.0]),
                         ("sqrt", [0.0, -0.0, 5e-324, 4.0, -1.0, float("inf")], [0.0]),
                         ("inv", [0.0, -0.0, 5e-324, 1e-320, 5.56e-309, 5.57e-309, 1e308, float("inf"), float("-inf")], [0.0]),
                         ("abs", [0.0, -0.0, -5e-324, float("-inf"), float("nan")], [0.0])):
        for x in xs_:
            for y in ys_:
                reqs.append({"op": "f64", "fn": fn, "x": f2b(x), "y": f2b(y), "n": 0})
    # constructors must reject input of the wrong length (a constructor that drops or invents elements cannot round-trip them)
    wl = []
    for D in range(1, 9):
        for extra in (-1, 1, 3):
            if D + extra >= 0:
                wl.append({"op": "vec", "fn": "roundtrip", "D": D, "a": [f2b(float(k + 1)) for k in range(D + extra)], "b": [], "s": f2b(0.0)})
    for r, a in zip(wl, run_harness(wl)):
        ctx.case(r, nontrivial=True); ctx.count("vec.from_vec_wrong_length")
        if a.get("status") != "panic":
            ctx.violation(f"Vector::<_, {r['D']}>::from_vec accepted {len(r['a'])} elements (constructors round-trip their elements: "
                          "wrong-length input must be rejected, not truncated or padded)", r, expected="panic (invalid dimension)", observed=a)
    # operand roles with a scalar type whose results carry the identity of their LEFT operand (self = 1, rhs = 2, scalar = 3): the
    # componentwise definitions are `self_i op rhs_i`, and dot/squared accumulate from zero() of self, adding self_i * rhs_i
    tg = []
    for D in range(1, 7):
        for fn in ("add", "sub", "muls", "mulr", "addassign", "dot", "squared", "new"):
            tg.append({"op": "vec_tag", "fn": fn, "D": D, "a": [f2b(rng.uniform(-2, 2)) for _ in range(D)], "b": [f2b(rng.uniform(-2, 2)) for _ in range(D)],
                       "s": f2b(1.5)})
    tg2 = [{"op": "vec_tag", "fn": "new_i", "D": D, "a": [f2b(rng.uniform(-2, 2)) for _ in range(D)], "b": [f2b(0.0)] * D, "s": f2b(0.0)} for D in range(1, 7)]
    for r, a in zip(tg2, run_harness(tg2)):
        ctx.case(r, nontrivial=True); ctx.count("vec.new_componentwise")
        exp = [100 + i for i in range(r["D"])]
        if a.get("tags") != exp or any(b2f(v) != 0.0 for v in a.get("r", [1])):
            ctx.violation(f"Vector::new (D={r['D']}): component i of the result is not zero() of component i of self (a scalar whose zero() remembers "
                          f"where it came from shows tags {a.get('tags')}, expected {exp})", r, expected=exp, observed=a)
    for r, a in zip(tg, run_harness(tg)):
        ctx.case(r, nontrivial=True); ctx.count("vec.operand_roles")
        if "tags" not in a or any(t != 1 for t in a["tags"]):
            ctx.violation(f"Vector::{r['fn']} (D={r['D']}): with a scalar type that remembers its left operand the result is not `self op rhs` "
                          f"accumulated from zero() of self (tags {a.get('tags')}, expected all 1)", r, expected=[1] * len(a.get("tags", [1])), observed=a)
    impl = run_harness(reqs)
    model = run_driver(reqs)
    # the same operations in the crate as a default-feature user builds it, WITH debug assertions and overflow checks (D = 1..6): same bits,
    # no panic (overflowing products, infinities and NaN operands included)
    from ..core import run_nolog
    sub = [(r, a) for r, a in zip(reqs, impl) if (r["op"] == "f64" or r.get("D", 0) <= 6)][:: 3] + \
          [(r, a) for r, a in zip(reqs, impl) if r["op"] == "vec" and r.get("D", 0) <= 6 and any(is_special(b2f(v)) or abs(b2f(v)) > 1e150 for v in r["a"] + r["b"])][:400]
    # (products beyond f64: finite operands, infinite result)
    for D in (1, 2, 3, 4, 6):
        for fn in ("dot", "squared", "muls", "add"):
            rq = {"op": "vec", "fn": fn, "D": D, "a": [f2b(1e200)] * D, "b": [f2b(-1e200 if fn == "dot" else 1e200)] * D, "s": f2b(1e200)}
            sub.append((rq, None))
    nres, nerr = run_nolog([r for r, _ in sub])
    if nres is None:
        ctx.mismatch("the crate does not build with its default features", None, nerr[-500:], None)
    else:
        pend = [r for (r, a) in sub if a is None]
        ref = dict(zip([id(r) for r in pend], run_harness(pend))) if pend else {}
        for (r, a), b in zip(sub, nres):
            a = a if a is not None else ref[id(r)]
            ctx.count("debug_assertions_build_compared")
            if b.get("skipped"):
                continue
            if b.get("status") == "panic":
                ctx.violation(f"{r['op']}::{r['fn']} panics in a build with debug assertions: {str(b.get('msg'))[:120]}", r, expected=a.get("r"), observed=b)
            elif b.get("r") != a.get("r"):
                ctx.violation(f"{r['op']}::{r['fn']}: the debug-assertions build returns other bits than the release build", r, expected=a.get("r"), observed=b.get("r"))
    for r, a, m in zip(reqs, impl, model):
        if r["op"] == "vec":
            av, bv = [b2f(v) for v in r["a"]], [b2f(v) for v in r["b"]]
            special = any(is_special(v) for v in av + bv)
            ctx.case(r, nontrivial=(special or r["D"] >= 2), sample={"request": r, "impl": a})
            ctx.count(f"vec.{r['fn']}")
            if special:
                ctx.count("vec.special_operand")
            cmp_record(ctx, "Vec model vs momtrop::vector::Vector", r, a, m, {"r": ("ulp", 0)})
            exp = vec_oracle(r["fn"], r["D"], av, bv, b2f(r["s"]))
            got = a.get("r")
            if got is None or len(got) != len(exp) or any(not bits_close(g, f2b(float(e)), 0) for g, e in zip(got, exp)):
                ctx.violation(f"Vector::{r['fn']} differs from the componentwise IEEE result", r,
                              expected=[f2b(float(e)) for e in exp], observed=got)
        else:
            x = b2f(r["x"])
            ctx.case(r, nontrivial=is_special(x) or r["fn"] in ("from_isize", "powf"), sample=None)
            ctx.count(f"f64.{r['fn']}")
            cmp_record(ctx, "Scalar Float vs impl MomTropFloat for f64", r, a, m, {"r": ("ulp", 0)})
            exp = f64_oracle(r["fn"], x, b2f(r["y"]), r["n"])
            tol = 0 if r["fn"] in EXACT_FNS else 2
            if "r" not in a or not bits_close(a["r"], f2b(exp), tol):
                # numpy's pow/trig may differ by more than 2ulp for huge arguments: only finite moderate args are decisive
                if r["fn"] in EXACT_FNS or (abs(x) < 1e6 and not is_special(x) and "r" in a and not bits_close(a["r"], f2b(exp), 16)) or "r" not in a:
                    ctx.violation(f"f64::{r['fn']} differs from the standard library result", r, expected=f2b(exp), observed=a.get("r"))
