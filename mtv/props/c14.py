"""C14 — each hypercube coordinate is consumed exactly once, in one statistical role."""
from ..core import f2b, b2f, run_harness, run_driver
from ..cmp import cmp_bits_list
from .. import samples as S, sample_checks as SC

MODULE = "Momtrop.Props.C14Tail"
THEOREMS = ["Momtrop.C14.chooseEdge_spec", "Momtrop.C14.permLoop_reads", "Momtrop.C14.permutahedral_reads", "Momtrop.C14.sample_reads_dim", "Momtrop.C14.lambda_depends_one", "Momtrop.C14.gaussian_depends_pair", "Momtrop.C14.permLoop_congr", "Momtrop.C14.feynman_depends_first", "Momtrop.C14.qVectors_congr", "Momtrop.C14.sample_ignores_tail"]
RULE = ("accepted connected graphs (1..4 loops, D=1..6 so that D*L is odd and even), points of length get_dimension()+3; the real generic "
        "code runs with a dependency-tracking scalar (value + set of coordinates + log of comparisons and narrowings): used coordinates, "
        "data/control dependencies of Feynman parameters, lambda and every Gaussian component; plus perturbation of every single "
        "coordinate on the f64 code, and truncated points. Non-trivial: L>=2; D*L odd and even counted")
ASSUMPTIONS = ["'influences' is established by perturbing the coordinate (up to 6 alternative values) on the real f64 code"]


def run(ctx):
    rng = ctx.rng
    ss = S.generate(ctx, 14 if ctx.quick else 100, 2 if ctx.quick else 4, max_e=6, max_loops=4, routings_per_graph=1, kinds=("uniform",),
                    special=("disconnected", "vacuum") * (2 if ctx.quick else 6) + ("single_edge",) * (2 if ctx.quick else 4))
    for k, s in enumerate(ss):
        n0 = len(s["case"]["edges"])
        if k % 4 == 1 and n0 >= 2:
            # an exactly zero xi coordinate (legal: the hypercube is [0,1)^n); a redraw would shift every later read
            s["xs"] = list(s["xs"]); s["xs"][rng.choice(range(1, 2 * n0 - 2, 2))] = 0.0; s["kind"] = "zero_xi"
        if k % 4 == 3:
            # an exact zero (and an exact power of two) in a radial Box-Muller slot
            n = len(s["case"]["edges"]); dl = s["case"]["D"] * s["routing"]["L"]
            j = rng.randrange((dl + dl % 2) // 2)
            val = rng.choice([0.0, 0.0, 2.0 ** -1074, 1.0, 1.0])
            # (a radius coordinate of exactly 1 gives the radius 0: both Gaussians of the pair vanish whatever the angle is - the angle
            # coordinate is still that pair's second coordinate, and the following pairs keep their places)
            s["xs"] = list(s["xs"]); s["xs"][2 * n - 1 + 2 * j] = val; s["kind"] = "one_radial" if val == 1.0 else "zero_radial"
        # coordinates beyond get_dimension() are ignored, whatever they are (NaN, out of range, ...)
        s["xs_long"] = s["xs"] + [rng.choice([rng.random(), float("nan"), 2.5, -1.0, float("inf")]) for _ in range(3)]
        s["req"] = S.sample_request(s["case"], s["routing"], s["table"], s["xs_long"], debug=False, meta=True)
        if k % 5 == 2:
            # surplus trailing entries in edge_data (more entries than edges) are ignored as well
            s["req"]["edge_data"] = s["req"]["edge_data"] + [[None, [f2b(0.5)] * s["case"]["D"]], [f2b(1.0), [f2b(-1.0)] * s["case"]["D"]]]
            s["kind"] = (s.get("kind") or "") + "+surplus_edge_data"
    S.run(ss)
    SC.corr_sample(ctx, ss, fields=("k", "u", "v", "jac"))
    treqs = [dict(s["req"], op="sample_track") for s in ss]
    tr = run_harness(treqs)
    # truncated points and the model on exactly `dim` coordinates
    dims = [2 * len(s["case"]["edges"]) - 1 + s["case"]["D"] * s["routing"]["L"] + (s["case"]["D"] * s["routing"]["L"]) % 2 for s in ss]
    short = run_harness([dict(s["req"], x=s["req"]["x"][: d - 1]) for s, d in zip(ss, dims)])
    exact = run_harness([dict(s["req"], x=s["req"]["x"][: d]) for s, d in zip(ss, dims)])
    for s, t, dim, sh, exa in zip(ss, tr, dims, short, exact):
        a, c, r = s["impl"], s["case"], s["routing"]
        n, D, L = len(c["edges"]), c["D"], r["L"]
        ctx.case([s["req"]["x"], c["edges"], c["weights"], D, r["sig"]], nontrivial=L >= 2,
                 sample={"graph": c["name"], "E": n, "D": D, "L": L, "dimension": dim, "narrowings": t.get("narrowings"), "q_deps": t.get("q_deps")} if len(ctx.samples) < 3 and L >= 2 else None)
        ctx.count("DL_odd" if (D * L) % 2 else "DL_even"); ctx.count(f"status.{t.get('status')}")
        req = S.small_req(s)
        if "error" in t:
            ctx.mismatch("tracking-scalar run", req, t, None, "machinery error"); continue
        if t.get("status") == "panic" or a.get("status") == "panic":
            ctx.violation("sample panicked on a point of length get_dimension()+3", req, observed=t); continue
        if t.get("dimension") != dim or a.get("dimension") != dim:
            ctx.violation(f"get_dimension() = {t.get('dimension')} differs from 2E-1+DL+(DL mod 2) = {dim}", req, expected=dim, observed=t.get("dimension")); continue
        if t.get("status") != "ok":
            continue
        base = 2 * n - 1
        feyn = set(i for dps in t["x_deps"] for i in dps) | set(i for dps in t["perm_comparisons"] for i in dps)
        if feyn != set(range(2 * n - 2)):
            ctx.violation(f"Feynman parameters depend on coordinates {sorted(feyn)}, expected exactly 0..{2*n-3}", req, expected=list(range(2 * n - 2)), observed=sorted(feyn)); continue
        nar = t["narrowings"]
        if [x["deps"] for x in nar] != [[], [2 * n - 2], []]:
            ctx.violation(f"narrowings to f64 during a sample are {[x['deps'] for x in nar]}; expected the Gamma draw only: [[], [{2*n-2}], []]", req,
                          expected=[[], [2 * n - 2], []], observed=[x["deps"] for x in nar]); continue
        bad = None
        for l in range(L):
            for i in range(D):
                nidx = l * D + i
                exp = [base + 2 * (nidx // 2), base + 2 * (nidx // 2) + 1]
                if t["q_deps"][l][i] != exp:
                    bad = (l, i, t["q_deps"][l][i], exp)
        if bad:
            ctx.violation(f"Gaussian component ({bad[0]},{bad[1]}) depends on coordinates {bad[2]}, expected its own pair {bad[3]}", req, expected=bad[3], observed=bad[2]); continue
        used = set(feyn) | set(i for x in nar for i in x["deps"]) | set(i for row in t["q_deps"] for dps in row for i in dps) \
            | set(i for row in t["k_deps"] for dps in row for i in dps) | set(t["u_deps"]) | set(t["v_deps"]) | set(t["jac_deps"]) \
            | set(i for dps in t["comparisons"] for i in dps)
        # coordinates that ANY operation was applied to (also values that are computed and thrown away): exactly the first get_dimension() ones
        if "touched" in t and set(t["touched"]) != set(range(dim)):
            ctx.violation(f"operations were applied to coordinates {sorted(set(t['touched']) - set(range(dim)))} beyond get_dimension() = {dim} (or not to all below): "
                          f"touched {sorted(t['touched'])}", req, expected=list(range(dim)), observed=sorted(t["touched"])); continue
        if used != set(range(dim)):
            ctx.violation(f"coordinates used by a sample are {sorted(used)}, expected exactly 0..{dim-1}", req, expected=list(range(dim)), observed=sorted(used)); continue
        # truncated points
        if sh.get("status") != "panic":
            ctx.violation(f"a point with only {dim-1} coordinates is accepted although get_dimension() = {dim}", req, observed=sh.get("status"))
        if {k: exa.get(k) for k in ("status", "k", "u", "v", "jac")} != {k: a.get(k) for k in ("status", "k", "u", "v", "jac")}:
            ctx.violation("coordinates beyond get_dimension() change the result", req, expected={k: exa.get(k) for k in ("k", "u", "v", "jac")}, observed={k: a.get(k) for k in ("k", "u", "v", "jac")})
    # a signature with FEWER columns than the graph has loops (the public API accepts it): the number of coordinates a sample reads is
    # still get_dimension(), a function of the graph alone
    nsel = [(s, d) for s, d in zip(ss, dims) if s["routing"]["L"] >= 2 and s["impl"].get("status") == "ok"][: (10 if ctx.quick else 60)]
    nreq = [dict(s["req"], sig=[row[:-1] for row in s["req"]["sig"]]) for s, d in nsel]
    nlong = run_harness(nreq)
    nexact = run_harness([dict(r, x=r["x"][: d]) for r, (s, d) in zip(nreq, nsel)])
    nshort = run_harness([dict(r, x=r["x"][: d - 1]) for r, (s, d) in zip(nreq, nsel)])
    for r, (s, d), lo, exa, sh in zip(nreq, nsel, nlong, nexact, nshort):
        ctx.case(["narrow_signature", r["sig"], r["x"][:4]], nontrivial=True); ctx.count(f"narrow_signature.{lo.get('status')}")
        req = dict(S.small_req(s), sig=r["sig"])
        if lo.get("dimension") is not None and lo.get("dimension") != d:
            ctx.violation(f"get_dimension() = {lo.get('dimension')} for a signature with {len(r['sig'][0])} columns; the graph gives {d}", req, expected=d, observed=lo.get("dimension")); continue
        if lo.get("status") != exa.get("status") or (lo.get("status") == "ok" and any(lo.get(k) != exa.get(k) for k in ("k", "u", "v", "jac"))):
            ctx.violation("narrow signature: coordinates beyond get_dimension() change the outcome", req, expected=exa.get("status"), observed=lo.get("status")); continue
        if lo.get("status") == "ok" and sh.get("status") != "panic":
            ctx.violation(f"narrow signature: a point with only {d-1} coordinates is accepted although get_dimension() = {d} (fewer coordinates are read than the dimension says)",
                          req, observed=sh.get("status"))
    # V = 0 exactly (no masses, all momenta zero), with and without metadata: the Gaussian coordinates are read all the same - a point one
    # coordinate short is rejected, the tracked reads (where the tracking op reports them) cover all get_dimension() coordinates
    zs = S.generate(ctx, 4 if ctx.quick else 16, 1, max_e=5, max_loops=3, routings_per_graph=1, names=["triangle", "sunrise", "bubble", "box"],
                    kinds=("uniform",), scales=(0,), mass_mode="none")
    zreq, zinfo = [], []
    for s in zs:
        c = s["case"]; dz = 2 * len(c["edges"]) - 1 + c["D"] * s["routing"]["L"] + (c["D"] * s["routing"]["L"]) % 2
        for meta in (False, True):
            base = S.sample_request(c, s["routing"], s["table"], s["xs"], debug=False, meta=meta)
            zreq.append(base); zinfo.append((s, dz, meta, "exact"))
            zreq.append(dict(base, x=base["x"][: dz - 1])); zinfo.append((s, dz, meta, "short"))
    zres = run_harness(zreq)
    for k, (rq, a, (s, dz, meta, what)) in enumerate(zip(zreq, zres, zinfo)):
        ctx.case(["V=0", rq["x"], meta, what], nontrivial=True); ctx.count(f"V=0.{what}.{a.get('status')}")
        small = dict(S.small_req(s), x=rq["x"], meta=meta)
        if what == "exact" and a.get("status") == "panic":
            ctx.violation(f"V = 0 sample (return_metadata={meta}) panicked on a point of exactly get_dimension() = {dz} coordinates", small, observed=a)
        # (a sample that ends in an error of the matrix step or of the Gamma draw stops before the Gaussian coordinates: only a sample that
        # SUCCEEDS on the exact point has read them all)
        if what == "short" and zres[k - 1].get("status") == "ok" and a.get("status") != "panic":
            ctx.violation(f"V = 0 sample (return_metadata={meta}): a point with only {dz-1} of get_dimension() = {dz} coordinates is accepted "
                          f"(the Gaussian coordinates were not read)", small, observed=a.get("status"))
    # every coordinate influences the result (perturbation on the f64 code), none beyond the dimension does
    preqs, pinfo = [], []
    for si, (s, dim) in enumerate(zip(ss[: (8 if ctx.quick else 40)], dims)):
        a = s["impl"]
        if any(t in (s.get("kind") or "") for t in ("zero_xi", "one_radial")):
            continue    # degenerate base point: every later parameter is 0 * (...), so later coordinates cannot show their influence here
        if a.get("status") != "ok" or not SC.finite([a["k"], a["u"], a["v"], a["jac"]]) or b2f(a["v"]) <= 0:
            continue
        for i in range(dim + 3):
            for rep in range(6 if i < dim else 1):
                xs = list(s["xs_long"]); xs[i] = [1e-300, 1 - 2.0 ** -53][rep] if (rep < 2 and i < dim) else rng.random()
                preqs.append(dict(s["req"], x=[f2b(v) for v in xs], debug=True)); pinfo.append((si, i, rep))
    pres = run_harness(preqs)
    base_dbg = run_harness([dict(s["req"], debug=True) for s in ss[: (8 if ctx.quick else 40)]])

    def observables(a):
        # everything a caller can observe: the result, the metadata and (feature `log`) the logged Feynman parameters
        return [a.get(k) for k in ("status", "k", "u", "v", "jac")] + [a.get("meta", {}) and {k: a["meta"].get(k) for k in ("q", "lambda")}] \
            + [a.get("log", {}).get("momtrop_feynman_parameter_no_rescaling")]
    changed = {}
    for (si, i, rep), p in zip(pinfo, pres):
        ch = observables(p) != observables(base_dbg[si])
        changed[(si, i)] = changed.get((si, i), False) or ch
    for (si, i), ch in changed.items():
        ctx.evaluations += 1
        dim = dims[si]
        if i < dim and not ch:
            ctx.violation(f"coordinate {i} of {dim} has no influence on the sample (6 alternative values tried)", S.small_req(ss[si]), observed=i)
        if i >= dim and ch:
            ctx.violation(f"coordinate {i} beyond get_dimension()={dim} influences the sample", S.small_req(ss[si]), observed=i)
