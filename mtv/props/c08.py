"""C08 — the returned U is the first Symanzik polynomial; L matrix symmetric with entries sum_e x_e s_ei s_ej."""
from fractions import Fraction
from ..core import f2b, b2f, run_harness, run_driver
from .. import samples as S, sample_checks as SC, kin, exact as X
from ..cmp import bits_close

MODULE = "Momtrop.Props.C08"
THEOREMS = ["Momtrop.C08.lMatrix_symm", "Momtrop.C08.lMatrix_entry", "Momtrop.C08.lMatrix_symmOn", "Momtrop.C08.u_eq_det", "Momtrop.C08.lMat_basis_change", "Momtrop.C08.lMat_orientation", "Momtrop.C08.det_basis_change", "Momtrop.C08.unimodular_sq"]
RULE = ("accepted connected catalogue/random graphs with 1..3 (quick) / 1..5 (thorough) loops, each with the fundamental cycle basis of a "
        "random spanning tree AND a random unimodular change of basis (entries of magnitude >=2 included) with edge re-orientations "
        "and loop-momentum offsets, points uniform / corner / coordinate one ulp below 1; non-trivial: L>=2 and non-fundamental "
        "basis or flipped edge; distinct = graph+signature+point")
ASSUMPTIONS = ["tolerance 100 L^2 eps min(cond_inf(L), cond_inf(D^-1 L D^-1)) relative (D = diag(L)^(1/2) rounded to powers of two), computed exactly from the implementation's Feynman parameters"]


def run(ctx):
    ss = S.generate(ctx, 14 if ctx.quick else 120, 4 if ctx.quick else 8, max_e=6 if ctx.quick else 8,
                    max_loops=3 if ctx.quick else 5, routings_per_graph=2, kinds=("uniform", "uniform", "corner", "tiny_xi"), )
    # chain-like graphs with sparse face bases in random order (zero off-diagonal L entries with fill-in)
    ss += S.generate(ctx, 8 if ctx.quick else 40, 2 if ctx.quick else 4, max_e=10, max_loops=4, routings_per_graph=4,
                     names=["banana4", "banana5", "ladder3x", "banana4", "ladder3x"])
    ss += S.generate(ctx, 2 if ctx.quick else 10, 2, max_e=6, max_loops=5, routings_per_graph=2, names=["banana6"])
    # many unimodular bases with entries of magnitude 2..5 (integer encodings of signature rows must not collide)
    ss += S.generate(ctx, 3 if ctx.quick else 12, 1, max_e=6, max_loops=4, routings_per_graph=12, names=["banana4", "banana5", "mercedes"],
                     variant="big", kinds=("uniform",))
    # bases in which loops that share no edge are NEIGHBOURS and coupled loops are not (zeros next to the diagonal of L, non-zeros further out)
    for nm in ("sunrise_tadpole", "bubble_chain3", "triangle_tadpole", "bubble_chain"):      # each of them in every run
        ss += S.generate(ctx, 1 if ctx.quick else 3, 1, max_e=7, max_loops=4, routings_per_graph=10, names=[nm], variant="permuted", kinds=("uniform",))
    # as many edges as loops (bouquets of self-loops): the signature is a square matrix; non-symmetric bases
    ss += S.generate(ctx, 4 if ctx.quick else 16, 2, max_e=4, max_loops=3, routings_per_graph=4, names=["tadpole_pair", "rose3"], mass_mode="all")
    # the last removed edge with parameter exactly 0 (whichever index it has): it drops out of every sum, the others do not
    ss += S.generate(ctx, 6 if ctx.quick else 30, 4, max_e=6, max_loops=3, routings_per_graph=1, kinds=("zero_last_xi",))
    S.run(ss)
    SC.corr_matrix(ctx, ss)
    SC.generic_scalar_guard(ctx, [s for s in ss if s["routing"]["L"] >= 2][:: 5], k=8, tol=1e-3)
    byg = {}
    for s in ss:
        a, c, r = s["impl"], s["case"], s["routing"]
        nl = r["L"]
        ctx.case([s["req"]["sig"], s["req"]["x"], c["edges"], c["weights"]], nontrivial=(nl >= 2 and r["nonfundamental"]),
                 sample={"graph": c["name"], "edges": c["edges"], "D": c["D"], "sig": r["sig"], "x": s["xs"][:4], "status": a.get("status")} if len(ctx.samples) < 4 and nl >= 2 else None)
        ctx.count(f"L={nl}"); ctx.count(f"status.{a.get('status')}"); ctx.count(f"max|sig|={r['max_sig']}"); ctx.count(f"point.{s['kind']}")
        if a.get("status") == "panic":
            ctx.violation("sample panicked", S.small_req(s), observed=a); continue
        if a.get("status") != "ok":
            continue
        xb = a["log"]["momtrop_feynman_parameter"]
        if not SC.finite(xb) or not SC.finite(a["meta"]["l"]) or not SC.finite([a["u"]]):
            SC.nonfinite_verdict(ctx, s, fields=("u",))
            ctx.count("nonfinite_parameters_skipped"); continue
        x = SC.fr_list(xb)
        ex = SC.exact_quantities(s, x)
        if ex is None or ex["det"] <= 0:
            ctx.count("singular_exact_L_skipped"); continue
        lm = X.mat_from_bits(nl, a["meta"]["l"])
        # symmetric, entries sum_e x_e s_ei s_ej
        for i in range(nl):
            for j in range(nl):
                if a["meta"]["l"][i * nl + j] != a["meta"]["l"][j * nl + i]:
                    ctx.violation("Metadata.l_matrix is not symmetric", S.small_req(s), observed=a["meta"]["l"]); break
                scale = sum(abs(x[e] * r["sig"][e][i] * r["sig"][e][j]) for e in range(len(x)))
                if abs(lm[i][j] - ex["L"][i][j]) > 4 * (len(x) + 1) * SC.EPS * scale:
                    ctx.violation(f"L[{i}][{j}] differs from sum_e x_e s_ei s_ej", S.small_req(s), expected=float(ex["L"][i][j]), observed=float(lm[i][j])); break
        sy = kin.symanzik(c["edges"], x, r["ext_mom"], r["masses"], c["D"])
        # the determinant of an SPD matrix by Cholesky is accurate relative to the condition number of the SCALED matrix
        # (graded L matrices - hierarchical Feynman parameters - have huge cond(L) but modest scaled condition)
        tol = SC.tol_cond(nl, min(ex["cond"], ex["cond_s"]))
        ctx.count("cond_scaled<cond/1e3" if ex["cond_s"] * 1000 < ex["cond"] else "cond_scaled~cond")
        if tol > Fraction(1, 1000):
            ctx.count("cancellation_dominates(cond)_skipped"); continue
        u = Fraction(b2f(a["u"]))
        rel = abs(u - sy["U"]) / sy["U"]
        ctx.extra["worst_error_over_tolerance"] = max(ctx.extra.get("worst_error_over_tolerance", 0.0), float(rel / tol))
        if rel > tol:
            ctx.violation(f"u = {float(u)!r} differs from the spanning-tree sum {float(sy['U'])!r} (rel {float(rel):.2e} > tol {float(tol):.2e}, cond {float(ex['cond']):.1e})",
                          S.small_req(s), expected=float(sy["U"]), observed=float(u))
        byg.setdefault(s["group"], []).append((s, u, tol))
    for g, lst in byg.items():
        if len(lst) >= 2:
            (s0, u0, t0), (s1, u1, t1) = lst[0], lst[1]
            ctx.count("basis_pairs_compared")
            if abs(u0 - u1) > (t0 + t1) * max(abs(u0), abs(u1)):
                ctx.violation(f"u depends on the supplied cycle basis: {float(u0)!r} vs {float(u1)!r}", S.small_req(s1), expected=float(u0), observed=float(u1))

    # ---- the same two mechanisms (compute_l_matrix, determinant of the decomposition) at Feynman parameters with an extreme hierarchy
    # BETWEEN loops that the sampler's normalisation rarely produces: every loop of a fundamental basis gets its own scale 10^k_l with
    # sum k_l ~ 0 (U is an ordinary number although pivots reach 1e+-160), tree edges far below every loop scale
    rng = ctx.rng
    hreqs, hinfo = [], []
    from .. import gen
    pool = []
    for name, edges in gen.CATALOGUE.items():
        nv = len(set(v for e in edges for v in e))
        nl = len(edges) - nv + 1
        if 2 <= nl <= 6 and len(edges) <= 9:
            pool.append((name, list(edges), nl))
    for _ in range(16 if ctx.quick else 100):
        name, edges, nl = rng.choice(pool)
        if rng.random() < 0.6:
            name, edges, nl = rng.choice([p for p in pool if p[2] >= 4])
        n = len(edges)
        Sg, tree = kin.fundamental_signature(rng, edges)
        own = {}
        for e in range(n):
            nz = [l for l in range(nl) if Sg[e][l] != 0]
            if len(nz) == 1 and nz[0] not in own:
                own[nz[0]] = e
        if len(own) < nl:
            continue
        half = nl // 2
        ks = [rng.randint(150, 160) for _ in range(half)] + [-rng.randint(150, 160) for _ in range(nl - half)]
        order = rng.choice(["big_first", "small_first", "shuffled"])
        if order == "small_first":
            ks.reverse()
        elif order == "shuffled":
            rng.shuffle(ks)
        tot = sum(ks)
        j = rng.randrange(nl)
        ks[j] = max(-290, min(290, ks[j] - tot + rng.randint(-5, 5)))
        x = [10.0 ** (min(ks) - 12)] * n
        for l, e in own.items():
            x[e] = rng.uniform(1, 9) * 10.0 ** ks[l]
        s_ = dict(routing=dict(sig=Sg, L=nl), case=dict(name=name, edges=edges))
        hreqs.append({"op": "lmat", "x": [f2b(v) for v in x], "sig": Sg}); hinfo.append((s_, x, ks)); ctx.count("hierarchy." + order)
    la = run_harness(hreqs)
    lm_ = run_driver(hreqs)
    dreqs = [{"op": "decomp", "n": s["routing"]["L"], "a": a.get("l", [])} for a, (s, x, ks) in zip(la, hinfo)]
    da, dm = run_harness(dreqs), run_driver(dreqs)
    for rq, a, m, dq, d1, d2, (s, x, ks) in zip(hreqs, la, lm_, dreqs, da, dm, hinfo):
        r, c = s["routing"], s["case"]
        nl = r["L"]
        ctx.case(["hierarchy", r["sig"], rq["x"]], nontrivial=True); ctx.count("loop_hierarchy_points")
        small = {"op": "lmat+decomp", "sig": r["sig"], "x": rq["x"], "graph": c["name"]}
        if a.get("l") != m.get("l"):
            ctx.mismatch("lMatrix model vs compute_l_matrix at hierarchical parameters", small, a, m)
        if d1.get("status") == "panic":
            ctx.violation("decompose_for_tropical panicked on an L matrix", small, observed=d1); continue
        if d1.get("status") != d2.get("status") or (d1.get("status") == "ok" and not bits_close(d1["det"], d2["det"], 4)):
            ctx.mismatch("decompose model vs decompose_for_tropical on L at hierarchical parameters (status/determinant)", small,
                         {k: d1.get(k) for k in ("status", "det")}, {k: d2.get(k) for k in ("status", "det")})
        xf = [Fraction(v) for v in x]
        Lx = [[sum(xf[e] * r["sig"][e][i] * r["sig"][e][j] for e in range(len(xf))) for j in range(nl)] for i in range(nl)]
        det = X.det(Lx)
        if not (Fraction(10) ** -290 < det < Fraction(10) ** 290):
            ctx.count("hierarchy_det_out_of_range_skipped"); continue
        if d1.get("status") != "ok":
            ctx.violation(f"L matrix at parameters with loop scales 1e{ks}: decomposition reports {d1.get('status')}, the exact determinant is {float(det):.3e}",
                          small, expected=float(det), observed=d1.get("status")); continue
        got = Fraction(b2f(d1["det"])) if X.is_finite_bits(d1["det"]) else None
        if got is None or abs(got - det) > Fraction(1, 10 ** 9) * det:
            ctx.violation(f"u = {b2f(d1['det'])!r} at parameters with loop scales 1e{ks}, exact determinant (spanning-tree sum) {float(det):.6e}",
                          small, expected=float(det), observed=b2f(d1["det"]))
