"""C13 — Gaussian vectors are the Box-Muller transform of their designated coordinates."""
import math
from ..core import f2b, b2f, run_harness, run_driver
from ..cmp import cmp_bits_list
from .. import samples as S, sample_checks as SC

MODULE = "Momtrop.Props.C13Joint"
THEOREMS = ["Momtrop.C13.boxMuller_def", "Momtrop.C13.gaussianAt_def", "Momtrop.C13.qVectors_component", "Momtrop.C13.qReads_def", "Momtrop.C13.pair_in_range", "Momtrop.C13.box_muller_radius", "Momtrop.C13.box_muller_polar", "Momtrop.C13.boxMuller_law", "Momtrop.C13.boxMuller_law_model", "Momtrop.C13.map_bm", "Momtrop.C13.gaussPair_eq_prod", "Momtrop.C13.joint_law", "Momtrop.C13.map_sel", "Momtrop.C13.components_iid", "Momtrop.C13.gaussianAt_of_pairs", "Momtrop.C13.drop_last_sine"]
RULE = ("(i) sample_q_vectors through the hook for every D=1..6 x L=1..5 with random tails, a in {2^-1074, 2^-1000, 1e-300, 1e-30, 1e-16, "
        "2^-53, 1-2^-53}; (ii) Metadata.q_vectors of real samples (massive banana graphs L=1..4, D=1..6) against the definition "
        "evaluated with mpmath. Non-trivial: L>=2 (pairing across loop vectors), D*L odd and even both counted")
ASSUMPTIONS = ["definition evaluated at 40 digits; tolerance 4e-16 r + 1e-15 |component| absolute (cos/sin of 2 pi b in binary64)"]

SPECIAL_A = [5e-324, 2.0 ** -1000, 1e-300, 1e-30, 1e-16, 2.0 ** -53, 2.0 ** -52, 1 - 2.0 ** -53, 0.5, 1e-5]


def definition(a, b):
    from mpmath import mp, mpf, sqrt, log, cos, sin, pi
    mp.dps = 40
    r = sqrt(-2 * log(mpf(a)))
    th = 2 * mpf(math.pi) * mpf(b)      # the code multiplies by the binary64 value of pi
    return r * cos(th), r * sin(th), r


def check_vectors(ctx, req, D, L, tail, q_bits, what):
    comps = [b2f(b) for row in q_bits for b in row]
    if len(q_bits) != L or any(len(row) != D for row in q_bits):
        ctx.violation(f"{what}: wrong shape of q_vectors", req, observed=q_bits); return
    for nidx, got in enumerate(comps):
        a, b = tail[2 * (nidx // 2)], tail[2 * (nidx // 2) + 1]
        c, s, r = definition(a, b)
        exp = c if nidx % 2 == 0 else s
        # 2*pi*b is rounded before cos/sin: allow its rounding error, amplified by r
        tol = float(r) * (8e-16 * (1 + 2 * math.pi * b)) + 1e-15 * abs(float(exp)) + 1e-300
        if not (abs(got - float(exp)) <= tol):
            ctx.violation(f"{what}: component {nidx} (loop {nidx // D}, index {nidx % D}) = {got!r}, Box-Muller definition gives {float(exp)!r} from pair ({a!r},{b!r})",
                          req, expected=float(exp), observed=got)
            return


def run(ctx):
    rng = ctx.rng
    reqs, infos = [], []
    reps = 3 if ctx.quick else 30
    for D in range(1, 7):
        for L in range(1, 6):
            for rep in range(reps):
                nread = D * L + (D * L) % 2
                tail = [rng.random() for _ in range(nread)]
                for k in range(0, nread, 2):
                    if rng.random() < 0.3:
                        tail[k] = rng.choice(SPECIAL_A)
                    tail[k] = min(max(tail[k], 5e-324), 1 - 2.0 ** -53)
                    if rng.random() < 0.3:       # exactly representable angles (quarter and eighth turns, zero)
                        tail[k + 1] = rng.choice([0.0, 0.25, 0.5, 0.75, 0.125, 0.375, 0.625, 0.875, 1.0])   # (only the radius coordinate is restricted to (0,1))
                extra = [rng.random() for _ in range(rng.randint(0, 3))]
                reqs.append({"op": "qvec", "D": D, "L": L, "x": [f2b(t) for t in tail + extra]})
                infos.append((D, L, tail))
    impl = run_harness(reqs); model = run_driver(reqs)
    for r, a, m, (D, L, tail) in zip(reqs, impl, model, infos):
        special = any(t in SPECIAL_A for t in tail[::2])
        ctx.case(r, nontrivial=L >= 2, sample={"D": D, "L": L, "tail": tail, "q": a.get("q")} if len(ctx.samples) < 3 and L == 2 and D == 3 else None)
        ctx.count("DL_odd" if (D * L) % 2 else "DL_even"); ctx.count(f"D={D}"); ctx.count(f"L={L}")
        if special:
            ctx.count("special_radius_argument")
        if a.get("status") == "panic":
            ctx.violation("sample_q_vectors panicked", r, observed=a); continue
        if "error" in a or "error" in m or m.get("status") != "ok":
            ctx.mismatch("qVectors model vs sample_q_vectors", r, a, m, "status"); continue
        d = cmp_bits_list(ctx, a["q"], m["q"], ulps=0)
        if d:
            ctx.mismatch("qVectors model vs sample_q_vectors (bit-exact expected)", r, a, m, d)
        check_vectors(ctx, r, D, L, tail, a["q"], "sample_q_vectors")
    # (ii) through real samples
    ss = S.generate(ctx, 10 if ctx.quick else 60, 4 if ctx.quick else 8, max_e=6, max_loops=4, routings_per_graph=1,
                    names=["bubble", "sunrise", "banana4", "banana5", "triangle", "double_triangle", "tadpole"], kinds=("uniform", "angles", "tiny_xi", "zero_xi"))
    # no masses and every momentum exactly zero: V = 0 (the loop momenta collapse to 0, the weight is infinite) - the Gaussian vectors in the
    # metadata are still the Box-Muller transform of their coordinates
    ss += S.generate(ctx, 4 if ctx.quick else 16, 2, max_e=5, max_loops=3, routings_per_graph=1, names=["triangle", "sunrise", "bubble", "box"],
                     kinds=("uniform",), scales=(0,), mass_mode="none")
    S.run(ss)
    SC.corr_qvec(ctx, ss)
    SC.generic_scalar_guard(ctx, ss[:: 3], k=8)
    for s in ss:
        a, c, r = s["impl"], s["case"], s["routing"]
        n, D, L = len(c["edges"]), c["D"], r["L"]
        ctx.case([s["req"]["x"][2 * n - 1:], D, L], nontrivial=L >= 2)
        ctx.count("sample.DL_odd" if (D * L) % 2 else "sample.DL_even")
        if a.get("status") == "panic":
            ctx.violation(f"sample panicked ({s['kind']} point): {str(a.get('msg'))[:120]}", S.small_req(s), observed=a); continue
        if a.get("status") != "ok":
            ctx.count(f"sample.{a.get('status')}"); continue
        check_vectors(ctx, S.small_req(s), D, L, s["xs"][2 * n - 1:], a["meta"]["q"], "Metadata.q_vectors")
