"""C02 — sample weights are bounded by graph- and kinematics-only constants."""
from fractions import Fraction
import math
from ..core import f2b, b2f
from .. import samples as S, sample_checks as SC, kin

MODULE = "Momtrop.Props.C02U"
THEOREMS = ["Momtrop.C02.sum_between_max", "Momtrop.C02.weighted_between_max", "Momtrop.C02.ratio_bounds", "Momtrop.C07.greedy_max", "Momtrop.C07.greedySet_cotree", "Momtrop.C07.symanzik_U_bounds", "Momtrop.C02.U_premises", "Momtrop.C02.U_premises_model", "Momtrop.C02.ratio_bounds_U", "Momtrop.C02.V_upper", "Momtrop.C07.mass_terms_le", "Momtrop.C07.momentum_terms_le"]
RULE = ("accepted connected graphs (1..3 loops quick / 1..4 thorough, masses, several loops, unequal weights, graphs with >=3 components in "
        "subgraphs), generic dyadic kinematics; points: uniform, hypercube corners (2^-20..2^-40, 1-2^-53), every edge-choice coordinate "
        "pushed to 0 / 1-2^-53 (rare sectors); N_T, c_min, C_sum computed exactly per graph and kinematics; points whose exact kappa_V > 1e8 are "
        "skipped as the property says. Non-trivial: >=3 edges and removal order not the identity"
        " Dedicated families in every run: hexagon/box with a doubled edge (many sectors), two-point functions (externals = end points of one propagator), self-loops, soft kinematics (2^-33, 2^-40), exact integer degrees of divergence 1..8 with even D; the identity jacobian/normalisation = u^(-D/2) v^(-dod) is checked on the returned fields.")
ASSUMPTIONS = ["bounds checked with a relative slack of 100 L^2 eps cond kappa on u, v"]


def run(ctx):
    from mpmath import mp, mpf
    mp.dps = 30
    ss = S.generate(ctx, 14 if ctx.quick else 120, 4 if ctx.quick else 8, max_e=6 if ctx.quick else 7, max_loops=3 if ctx.quick else 4,
                    routings_per_graph=1, kinds=("uniform", "corner", "corner", "uniform"), scales=(1, 1, Fraction(1, 2 ** 33), 2 ** 30))
    ss += S.generate(ctx, 6 if ctx.quick else 40, 4, max_e=7, max_loops=3, routings_per_graph=1, kinds=("uniform", "corner"),
                     names=["sunrise", "banana4", "double_triangle", "kite", "bubble_chain", "triangle_tadpole", "sunrise_tadpole", "bubble_chain3"],
                     mass_mode="some")
    # graphs with subgraphs of >=3 components (a bubble and two separated edges ...): many sectors per graph
    ss += S.generate(ctx, 2 if ctx.quick else 8, 150 if ctx.quick else 400, max_e=7, max_loops=3, routings_per_graph=1, kinds=("uniform",),
                     names=["hexagon_doubled"])
    ss += S.generate(ctx, 3 if ctx.quick else 12, 100 if ctx.quick else 300, max_e=7, max_loops=3, routings_per_graph=1, kinds=("uniform",),
                     names=["box_doubled"])
    # soft kinematics (all momenta and masses ~1e-10): the bounds are scale invariant, absolute thresholds are not
    ss += S.generate(ctx, 8 if ctx.quick else 40, 4, max_e=5, max_loops=3, routings_per_graph=1, kinds=("uniform",),
                     scales=(Fraction(1, 2 ** 33), Fraction(1, 2 ** 40)))
    # exact integer degrees of divergence and even dimensions (integral exponents in the rescaling and in the weight)
    ss += S.generate(ctx, 0, 4 if ctx.quick else 8, routings_per_graph=1, kinds=("uniform",),
                     special=("integer_dod:4", "integer_dod:2", "integer_dod:3", "integer_dod:1", "integer_dod:4", "integer_dod:5", "integer_dod:6",
                              "integer_dod:8") * (2 if ctx.quick else 8))
    ss += S.generate(ctx, 2 if ctx.quick else 8, 100 if ctx.quick else 300, max_e=7, max_loops=3, routings_per_graph=1, kinds=("uniform",),
                     names=["bubble_chain3"])
    # two-point functions: the externals are the end points of one propagator (a single remaining edge can still be
    # mass-momentum spanning); small graphs, many sectors
    ss += S.generate(ctx, 6 if ctx.quick else 30, 10 if ctx.quick else 30, max_e=5, max_loops=3, routings_per_graph=1, kinds=("uniform",),
                     names=["bubble", "triangle", "sunrise", "box", "bubble_leg", "kite"], ext_modes=["edge"])
    # graphs with self-loops: a tadpole removed LAST still lowers the loop number
    ss += S.generate(ctx, 5 if ctx.quick else 25, 10 if ctx.quick else 30, max_e=5, max_loops=3, routings_per_graph=1, kinds=("uniform",),
                     names=["tadpole", "tadpole_pair", "triangle_tadpole", "sunrise_tadpole"])
    ss += S.generate(ctx, 0, 3, routings_per_graph=1, kinds=("uniform",), special=("repeated_weights", "weights_equal_dod") * (3 if ctx.quick else 10))
    # vacuum graphs (no external vertex): all edges massive / none / some - spanning is "holds every massive edge" and nothing else
    ss += S.generate(ctx, 0, 6 if ctx.quick else 12, routings_per_graph=1, kinds=("uniform",),
                     special=("vacuum_mixed",) * (6 if ctx.quick else 24) + ("vacuum", "vacuum_massless") * (2 if ctx.quick else 6))
    ss += S.samples_for_cases(ctx, S.big_dimension_cases(ctx.rng), 3)
    rng = ctx.rng
    # rare sectors: push edge-choice coordinates to the ends of [0,1)
    for s in list(ss[:: 3]):
        n = len(s["case"]["edges"])
        xs = list(s["xs"])
        for j in range(n - 1):
            xs[2 * j] = rng.choice([5e-324, 1 - 2.0 ** -53, rng.random()])
        ss.append(dict(s, xs=xs, req=S.sample_request(s["case"], s["routing"], s["table"], xs), kind="rare_sector"))
    evaluate(ctx, ss)
    SC.divergent_probe(ctx)
    # failing-input search when the tie to the subgraph table broke (build_sampler rejected graphs the exact oracle accepts): the same
    # topologies with larger propagator powers, which a wrong loop number / spanning flag may let through, many sectors each
    rej = ctx.extra.pop("_rejected_cases", [])
    if rej and not ctx.violations:
        from .. import oracle
        retry = []
        for c0 in rej[:6]:
            for f in (1.5, 2.0, 3.0):
                w = [t * f for t in c0["weights"]]
                dod, Lf, table = oracle.table_oracle(c0["edges"], w, c0["massive"], c0["ext"], c0["D"])
                if not oracle.divergent_subsets(table):
                    retry.append(dict(c0, weights=w, dod=dod, loops=Lf, table=table, accepted=True, name=c0.get("name", "") + "+heavier"))
        ctx.count("search.retry_cases", len(retry))
        evaluate(ctx, S.samples_for_cases(ctx, retry, 60))
    ctx.extra.pop("_rejected_cases", None)


def evaluate(ctx, ss):
    from mpmath import mp, mpf
    S.run(ss)
    # "jacobian / normalisation": the normalisation is the true one, not merely whatever the table stores
    SC.normalisation_oracle(ctx, ss)
    SC.corr_perm(ctx, ss)
    for s in ss:
        a, c, r = s["impl"], s["case"], s["routing"]
        nl, D, n = r["L"], c["D"], len(c["edges"])
        x_b, xpre_b, _, _ = S.feynman_from_log(a)
        order_identity = True
        if xpre_b and SC.finite(xpre_b):
            xp = [b2f(b) for b in xpre_b]
            order_identity = all(xp[i] >= xp[i + 1] for i in range(n - 1))
        ctx.case([s["req"]["x"][: 2 * n - 2], c["edges"], c["weights"], D, s["req"]["edge_data"]], nontrivial=(n >= 3 and not order_identity),
                 sample={"graph": c["name"], "edges": c["edges"], "D": D, "kind": s["kind"]} if len(ctx.samples) < 4 else None)
        ctx.count(f"kind.{s['kind']}"); ctx.count(f"status.{a.get('status')}"); ctx.count(f"L={nl}")
        if a.get("status") == "panic":
            ctx.violation("sample panicked", S.small_req(s), observed=a); continue
        if a.get("status") != "ok" or x_b is None or not SC.finite([x_b, a["u"], a["v"], a["jac"]]):
            if a.get("status") == "ok":
                SC.nonfinite_verdict(ctx, s)
            ctx.count("not_ok_or_nonfinite_skipped"); continue
        x = SC.fr_list(x_b)
        if any(t <= 0 for t in x):
            ctx.count("zero_parameter_skipped"); continue
        ex = SC.exact_quantities(s, x)
        if ex is None or ex["det"] <= 0 or ex["V"] <= 0:
            ctx.count("degenerate_exact_skipped"); continue
        if ex["kappa"] > 10 ** 8:
            ctx.count("kappa>1e8_skipped"); continue
        if SC.tol_cond(nl, ex["cond"], ex["kappa"]) > Fraction(1, 100):
            # parameters so spread that det L / V are not resolvable in binary64 (cond(L) kappa_V > ~1e10): f64 cancellation dominates
            ctx.count("cancellation_dominates(cond*kappa)_skipped"); continue
        sy = kin.symanzik(c["edges"], x, r["ext_mom"], r["masses"], D)
        gen_mom = {vtx: [Fraction(1000003 * (i + 1) + 17 * i * i)] for i, vtx in enumerate(sorted(r["ext_mom"]))}
        if gen_mom:
            tot = sum(p[0] for p in gen_mom.values()); k0 = sorted(gen_mom)[0]; gen_mom[k0] = [gen_mom[k0][0] - tot]
        sup = kin.symanzik(c["edges"], x, gen_mom, [Fraction(1) if m else Fraction(0) for m in c["massive"]], 1)
        if set(sup["Fmon"]) != set(sy["Fmon"]) or not sy["Fmon"]:
            ctx.count("non_generic_kinematics_skipped"); continue
        NT = sy["ntrees"]
        coeffs = [cf for cf, _ in sy["Fmon"].values()]
        cmin, Csum = min(coeffs), sum(coeffs)
        Utr = max(sy["Umon"]); Ftr = max(val for _, val in sy["Fmon"].values()); Vtr = Ftr / Utr
        slack = 1 + SC.tol_cond(nl, ex["cond"], ex["kappa"])
        u, v = Fraction(b2f(a["u"])), Fraction(b2f(a["v"]))
        # the bounds are statements about the Symanzik polynomials AT the sampled parameters: the returned u, v are those values
        tolx = SC.tol_cond(nl, min(ex["cond"], ex["cond_s"]), ex["kappa"]) + Fraction(1, 10 ** 12)
        if abs(u - ex["det"]) > tolx * ex["det"] or abs(v - ex["V"]) > tolx * ex["V"]:
            ctx.violation(f"returned (u, v) = ({float(u)!r}, {float(v)!r}) are not the Symanzik polynomials (U, F/U) = ({float(ex['det'])!r}, {float(ex['V'])!r}) "
                          f"at the sampled Feynman parameters (tolerance {float(tolx):.1e} relative)", S.small_req(s),
                          expected=[float(ex["det"]), float(ex["V"])], observed=[float(u), float(v)]); continue
        if not (Utr <= u * slack and u <= NT * Utr * slack):
            ctx.violation(f"U_tr <= u <= N_T U_tr violated: U_tr={float(Utr)!r}, u={float(u)!r}, N_T={NT}", S.small_req(s), observed=float(u)); continue
        if not (cmin / NT * Vtr <= v * slack and v <= Csum * Vtr * slack):
            ctx.violation(f"(c_min/N_T) V_tr <= v <= C_sum V_tr violated: V_tr={float(Vtr)!r}, v={float(v)!r}, c_min={float(cmin)!r}, C_sum={float(Csum)!r}, N_T={NT}",
                          S.small_req(s), observed=float(v)); continue
        # the returned ratio = jacobian / normalisation with u_trop = v_trop = 1
        dod = Fraction(b2f(s["built"]["dod"]))
        cached = b2f(s["built"]["cached"])
        ratio = mpf(b2f(a["jac"])) / mpf(cached)
        lo = mpf(NT) ** (-mpf(D) / 2) * (mpf(Csum.numerator) / mpf(Csum.denominator)) ** (-mpf(float(dod)))
        hi = (mpf(NT) * mpf(cmin.denominator) / mpf(cmin.numerator)) ** mpf(float(dod))
        # the ratio IS (u_trop/u)^(D/2) (v_trop/v)^dod with u_trop = v_trop = 1 and the returned u, v
        ctx.count("ratio_identity_checked"); ctx.count("ratio_identity.dod_is_integer" if float(dod) == int(float(dod)) else "ratio_identity.dod_generic")
        rexp = mpf(b2f(a["u"])) ** (-mpf(D) / 2) * mpf(b2f(a["v"])) ** (-mpf(b2f(s["built"]["dod"])))
        if abs(ratio - rexp) > mpf(1e-11) * (D + abs(float(dod)) + 2) * abs(rexp):
            ctx.violation(f"jacobian/normalisation = {float(ratio)!r} is not u^(-D/2) v^(-dod) = {float(rexp)!r} for the returned u, v (D={D}, dod={float(dod)!r})",
                          S.small_req(s), expected=float(rexp), observed=float(ratio)); continue
        sl = 1 + float((D / 2 + float(dod) + 2) * (slack - 1)) + 1e-9
        if not (lo / sl <= ratio <= hi * sl):
            ctx.violation(f"jacobian/normalisation = {float(ratio)!r} outside [N_T^(-D/2) C_sum^(-dod), (N_T/c_min)^dod] = [{float(lo)!r}, {float(hi)!r}]",
                          S.small_req(s), expected=[float(lo), float(hi)], observed=float(ratio)); continue
        if b2f(a["uTrop"]) != 1.0 or b2f(a["vTrop"]) != 1.0:
            ctx.violation("returned u_trop, v_trop are not 1", S.small_req(s), observed=[b2f(a["uTrop"]), b2f(a["vTrop"])])
        # normalisation of the tropical polynomials at the returned parameters (what makes u_trop = v_trop = 1 legitimate)
        val = (mpf(Utr.numerator) / mpf(Utr.denominator)) ** (mpf(D) / 2) * (mpf(Vtr.numerator) / mpf(Vtr.denominator)) ** mpf(float(dod))
        if abs(val - 1) > mpf(1e-10) * (D * nl + float(dod) + 1):
            ctx.violation(f"U_tr^(D/2) V_tr^dod = {float(val)!r} at the returned parameters, not 1", S.small_req(s), expected=1.0, observed=float(val))
