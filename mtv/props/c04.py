"""C04 — J-function obeys its recursion exactly; I_tr and the cached normalisation follow."""
import math
from fractions import Fraction
from ..core import f2b, b2f, run_harness, run_driver
from ..cmp import cmp_record, bits_close, cmp_bits_list
from .. import gen, oracle, graphs

MODULE = "Momtrop.Props.C04R"
THEOREMS = ["Momtrop.C04.memo_sound", "Momtrop.C04.J_empty", "Momtrop.C04.J_rec", "Momtrop.C04.table_j", "Momtrop.C04.edge_probs_sum_one", "Momtrop.C04.cachedFactor_eq", "Momtrop.C04.J_eq_sum_orderings", "Momtrop.C04.J_full_eq_sum_orderings", "Momtrop.C04.orderingsAux_length", "Momtrop.C04.orderingsAux_perm", "Momtrop.C04.orderingsAux_nodup", "Momtrop.C04.orderProb_eq", "Momtrop.C04.complete_order_exhausts", "Momtrop.C04.orderProb_sum_one"]
RULE = ("accepted catalogue + random multigraphs (E<=6 quick / 8 thorough), D=1..6, rational k/12, unit and random weights, "
        "mixed masses; J of all 2^E subsets vs the exact Fraction recursion, the sum over all E! orderings (E<=6 quick, <=7 thorough), "
        "cached factor vs mpmath (40 digits); same topology is rebuilt with other weights inside one process. "
        "Non-trivial: accepted, >=3 edges, not all weights equal")
ASSUMPTIONS = ["tolerance for J: 1e-12 * E * (1 + sum|w| / min|omega|) relative; cached factor 1e-11 relative"]


def cached_oracle(c, Jfull):
    from mpmath import mp, mpf, gamma as G, pi
    mp.dps = 40
    dod = mpf(c["dod"].numerator) / mpf(c["dod"].denominator)
    val = mpf(Jfull.numerator) / mpf(Jfull.denominator) * G(dod)
    for w in c["weights"]:
        val /= G(mpf(w))
    val *= pi ** (mpf(c["D"] * c["loops"]) / 2)
    return float(val)


def run(ctx):
    rng = ctx.rng
    cases = graphs.case_stream(rng, 50 if ctx.quick else 400, max_e=6 if ctx.quick else 8, accepted_fraction=1.0)
    cases = [c for c in cases if c["accepted"]]
    # vertex labels that differ by exactly a power of two (8..128), in every run
    for nm, edges in gen.collision_labelled(rng):
        got = 0
        for _ in range(12):
            # (every step 8..128 must contribute ACCEPTED graphs in every run, whatever the random stream: up to 12 attempts for 2)
            c2 = graphs.make_case(rng, edges, rng.randint(1, 6), want=True, ext_mode=rng.choice(["all", "all", "subset", "two"]))
            if c2 is not None and c2["accepted"]:
                c2 = dict(c2); c2["name"] = nm; cases.append(c2); got += 1
                if got >= 2:
                    break
    cases = [c for c in cases if c["accepted"]]
    # the same topology again with other weights / other D (history inside one process)
    extra = []
    for c in cases[:: 3]:
        for c2 in (graphs.make_case(rng, c["edges"], rng.randint(1, 6), want=True), graphs.reweight(rng, c)):
            if c2 is not None and c2["accepted"]:
                c2 = dict(c2); c2["name"] = c["name"] + "+rebuild"; extra.append(c2)
    cases += extra
    # one entry per external LEG: vertices listed twice or three times in `externals` (the SET of external vertices is what matters)
    for c in list(cases[:: 4]):
        if c["ext"]:
            ext = list(c["ext"]) + [rng.choice(c["ext"]) for _ in range(rng.choice([1, 2, 3, 5, 8]))]
            rng.shuffle(ext)
            dod, Lf, table = oracle.table_oracle(c["edges"], c["weights"], c["massive"], ext, c["D"])
            if not oracle.divergent_subsets(table):
                cases.append(dict(c, ext=ext, table=table, dod=dod, loops=Lf, accepted=True, name=c["name"] + "+repeated_externals"))
    # exactly ONE external vertex (listed once or twice): "touches the external vertex" still decides the spanning flag - accepted graphs
    # whose table differs from the one of the same graph without externals, in every run
    got = 0
    for _ in range(200):
        if got >= (4 if ctx.quick else 16):
            break
        nm = rng.choice(["triangle", "box", "sunrise", "bubble", "kite", "double_triangle"])
        edges = gen.relabel(rng, list(gen.CATALOGUE[nm]))[0]
        c0 = graphs.make_case(rng, edges, rng.randint(2, 4), want=True, ext_mode="all", mass_mode=rng.choice(["none", "some"]))
        if c0 is None or not c0["accepted"]:
            continue
        v = rng.choice(sorted(set(t for e in edges for t in e)))
        ext = [v] * rng.choice([1, 1, 2])
        dod, Lf, table = oracle.table_oracle(c0["edges"], c0["weights"], c0["massive"], ext, c0["D"])
        _, _, table0 = oracle.table_oracle(c0["edges"], c0["weights"], c0["massive"], [], c0["D"])
        if not oracle.divergent_subsets(table) and any(a[1] != b[1] for a, b in zip(table, table0)):
            cases.append(dict(c0, ext=ext, table=table, dod=dod, loops=Lf, accepted=True, name=nm + "+single_external")); got += 1
    ctx.count("single_external_cases", got)
    from .. import samples as S_
    cases += S_.big_dimension_cases(rng)          # D = 260 and D = 13 (pi^(D L/2) at D L = 13, 260)
    for kind in ("repeated_weights", "weights_equal_dod") * (4 if ctx.quick else 15):
        cc = S_.make_special_case(rng, kind)
        if cc is not None:
            cases.append(cc)
    # edges with a tiny weight: proper subsets with 0 < omega < 2^-52 are accepted and dominate J
    for tiny in (2.0 ** -60, 2.0 ** -55, 1e-20):
        for edges, w, massive, ext, D in (([(0, 1), (1, 2), (2, 0)], [tiny, 1.0, 1.0], [True, False, False], [0, 1, 2], 3),
                                          ([(0, 1), (0, 1)], [2.0, tiny], [True, True], [0, 1], 3),
                                          ([(0, 1), (1, 2), (2, 3), (3, 0)], [1.0, tiny, 1.0, 1.0], [False, True, False, False], [0, 1, 2, 3], 3)):
            dod, Lf, table = oracle.table_oracle(edges, w, massive, ext, D)
            if not oracle.divergent_subsets(table):
                cases.append(dict(edges=edges, weights=w, massive=massive, ext=ext, D=D, table=table, dod=dod, loops=Lf, accepted=True,
                                  name="tiny_weight"))
    # huge propagator powers (products of weights overflow although every J is an ordinary number), and powers that differ only beyond
    # single precision
    for edges, w, massive, ext, D in (([(0, 1), (1, 2), (2, 3), (3, 4), (4, 0)], [1e80, 1e80, 1e80, 1e80, 1.0], [True] * 5, [0, 1, 2, 3, 4], 3),
                                      ([(0, 1), (1, 2), (2, 0)], [1e150, 1e160, 2.0], [True] * 3, [0, 1, 2], 3),
                                      ([(0, 1), (1, 2), (2, 0)], [2.0 / 3, 2.0 / 3 + 3e-9, 0.7], [False] * 3, [0, 1, 2], 3),
                                      ([(0, 1), (0, 1)], [1.0 + 2e-9, 1.0, ], [True, True], [0, 1], 3),
                                      # a propagator power of exactly 0 (1/Gamma(0) = 0: the normalisation vanishes)
                                      ([(0, 1), (0, 1), (0, 1)], [0.0, 0.9, 0.9], [False] * 3, [0, 1], 3),
                                      # Gamma values beyond 1e100 (still far inside f64), and a degree of divergence just below the overflow of Gamma
                                      # together with a large pi^(D L/2): the normalisation is an ordinary number, intermediate products need not be
                                      ([(0, 0)], [120.0], [True], [0], 3),
                                      ([(0, 1), (0, 1)], [60.0, 60.0], [True, True], [0, 1], 3),
                                      ([(0, 1), (0, 1), (0, 1)], [60.5, 60.5, 61.0], [True] * 3, [0, 1], 13),
                                      ([(0, 1)] * 5, [36.25, 36.25, 36.25, 36.25, 36.5], [True] * 5, [0, 1], 6),
                                      ([(0, 1), (0, 1)], [85.0, 86.0], [True, True], [0, 1], 4),
                                      ([(0, 1), (1, 2), (2, 3), (3, 0)], [0.8, 0.8 * (1 + 4e-8), 0.8 * (1 - 3e-8), 0.9], [False] * 4, [0, 1, 2, 3], 3)):
        dod, Lf, table = oracle.table_oracle(edges, w, massive, ext, D)
        if not oracle.divergent_subsets(table):
            cases.append(dict(edges=edges, weights=w, massive=massive, ext=ext, D=D, table=table, dod=dod, loops=Lf, accepted=True,
                              name="extreme_or_nearly_equal_weights"))
    # parallel propagators with EQUAL powers of which only some are massive (indistinguishable by end points and weight, not by mass)
    for _ in range(6 if ctx.quick else 40):
        name = rng.choice(["bubble", "sunrise", "banana4", "bubble_chain", "bubble_leg", "box_doubled"])
        edges, _, _ = gen.relabel(rng, list(gen.CATALOGUE[name]))
        D = rng.randint(2, 4)
        n = len(edges)
        massive = [rng.random() < 0.5 for _ in range(n)]
        if all(massive) or not any(massive):
            massive[0] = not massive[0]
        ext = sorted(set(v for e in edges for v in e))
        L = oracle.subset_info(edges, massive, ext, (1 << n) - 1)[0]
        w = [(L * D / 2.0 + rng.uniform(0.3, 1.5)) / n] * n
        dod, Lf, table = oracle.table_oracle(edges, w, massive, ext, D)
        if not oracle.divergent_subsets(table):
            cases.append(dict(edges=edges, weights=w, massive=massive, ext=ext, D=D, table=table, dod=dod, loops=Lf, accepted=True,
                              name="parallel_equal_weights_mixed_masses"))
    # a self-loop sitting on an end point of an ordinary edge with the SAME power and mass flag (looks like a parallel partner when only
    # "both end points are shared" is tested), the ordinary edge first
    for _ in range(30 if ctx.quick else 150):
        name = rng.choice(["bubble", "triangle", "sunrise", "bubble_leg", "box"])
        edges, _, _ = gen.relabel(rng, list(gen.CATALOGUE[name]))
        i = rng.randrange(len(edges))
        v = rng.choice(edges[i])
        edges = list(edges)
        edges[0], edges[i] = edges[i], edges[0]           # the ordinary partner first, the self-loop last
        edges.append((v, v))
        D = rng.randint(1, 3)
        n = len(edges)
        massive = [True] * n if rng.random() < 0.7 else [True] + [rng.random() < 0.6 for _ in range(n - 2)] + [True]
        ext = sorted(set(v2 for e in edges for v2 in e))
        pair = D / 2.0 + rng.choice([0.25, 0.3, 0.5, 0.7])   # a self-loop alone must converge: weight > D/2
        w = [pair] + [rng.choice([pair, 0.6, 0.9, 1.1, D / 2.0 + 0.4]) for _ in range(n - 2)] + [pair]
        dod, Lf, table = oracle.table_oracle(edges, w, massive, ext, D)
        if not oracle.divergent_subsets(table):
            ctx.count("family.selfloop_with_equal_weight_neighbour")
            cases.append(dict(edges=edges, weights=w, massive=massive, ext=ext, D=D, table=table, dod=dod, loops=Lf, accepted=True,
                              name="selfloop_with_equal_weight_neighbour"))
    # a mass-momentum SPANNING proper subgraph a few ulps above a logarithmic divergence (its omega does not depend on its own
    # weights: tune an edge of the complement)
    for c in list(cases[:: 3]):
        n = len(c["edges"])
        sp = [m for m in range(1, (1 << n) - 1) if c["table"][m][1]]
        if not sp:
            continue
        m = rng.choice(sp)
        e = rng.choice([k for k in range(n) if not m >> k & 1])
        for delta in (2.0 ** -51, 3 * 2.0 ** -53, 2.0 ** -60):
            neww = float(Fraction(c["weights"][e]) + c["table"][m][2] - Fraction(delta))
            if not neww > 0:
                continue
            w = list(c["weights"]); w[e] = neww
            dod, Lf, table = oracle.table_oracle(c["edges"], w, c["massive"], c["ext"], c["D"])
            if not oracle.divergent_subsets(table):
                cases.append(dict(c, weights=w, table=table, dod=dod, loops=Lf, accepted=True, name=c["name"] + "+spanning_subgraph_almost_log_divergent"))
    for c in list(cases[:: 4]):
        for delta in (2.0 ** -60, 1e-17, 1e-13):
            t = graphs.near_threshold(rng, c, delta)
            if t is not None and t["accepted"]:
                t = dict(t); t["name"] = c["name"] + "+tiny_omega"; cases.append(t)
    reqs = [graphs.request(c) for c in cases]
    impl = run_harness(reqs)
    q2, idx = [], []
    for i, (c, r, a) in enumerate(zip(cases, reqs, impl)):
        if a.get("status") == "ok":
            n = len(c["edges"])
            q2.append({"op": "jfill", "n": n, "dods": [e[3] for e in a["entries"]]}); idx.append(i)
            q2.append(dict(r, op="cached", numLoops=a["numLoops"], dod=a["dod"], iTr=a["entries"][-1][2], gammas=a["gammas"])); idx.append(i)
    m2 = run_driver(q2)
    mj = {i: m for i, q, m in zip(idx, q2, m2) if q["op"] == "jfill"}
    mc = {i: m for i, q, m in zip(idx, q2, m2) if q["op"] == "cached"}
    for i, (c, r, a) in enumerate(zip(cases, reqs, impl)):
        n = len(c["edges"])
        nontriv = a.get("status") == "ok" and n >= 3 and len(set(c["weights"])) > 1
        ctx.case(r, nontrivial=nontriv, sample={"edges": c["edges"], "weights": c["weights"], "D": c["D"], "massive": c["massive"], "ext": c["ext"]} if i % 25 == 0 else None)
        ctx.count(f"impl.{a.get('status')}"); ctx.count(f"E={n}")
        if a.get("status") == "panic":
            ctx.violation("build panicked", r, observed=a); continue
        if a.get("status") != "ok":
            if c["accepted"] and min(abs(c["table"][mk][2]) for mk in range(1, max(2, (1 << n) - 1))) > Fraction(1, 10 ** 9):
                ctx.count("rejected_though_exact_accepts(C05)")
            continue
        js = [e[2] for e in a["entries"]]
        # ---- correspondence (modular: the model is fed the implementation's own generalised dods)
        m = mj[i]
        if "error" in m:
            ctx.mismatch("fillJ model vs recursive_fill_j_function", r, None, m); continue
        d = cmp_bits_list(ctx, js, m["j"], ulps=4)
        if d:
            ctx.mismatch("fillJ model (memoised, on the implementation's dods) vs table j_function", r, {"j": js}, m, d)
        if m["j"] != m["jspec"]:
            ctx.mismatch("model-internal: memoised fill differs from the direct recursion jSpec", r, None, m)
        mcr = mc[i]
        d = cmp_bits_list(ctx, [a["cached"]], [mcr.get("cached")], ulps=8) if "cached" in mcr else "driver error"
        if d:
            ctx.mismatch("cachedFactor model vs cached_factor", r, {"cached": a["cached"]}, mcr, d)
        # ---- oracle
        Jx = oracle.j_exact(c["table"], n)
        wsum = float(sum(abs(w) for w in c["weights"])) + c["loops"] * c["D"]
        omin = float(min(abs(c["table"][mk][2]) for mk in range((1 << n) - 1)))
        tol = 1e-12 * n * (1 + wsum / omin) * n
        bad = None
        for mask in range(1 << n):
            jv = b2f(js[mask]); ex = float(Jx[mask])
            if not (math.isfinite(jv) and abs(jv - ex) <= tol * abs(ex)):
                bad = (mask, jv, ex); break
        if bad:
            ctx.violation(f"J of subset {bad[0]:#b} = {bad[1]!r} differs from the exact recursion value {bad[2]!r} (tol {tol:.1e} rel)", r,
                          expected=bad[2], observed=bad[1]); continue
        if b2f(js[0]) != 1.0:
            ctx.violation("J(empty) != 1", r, observed=b2f(js[0]))
        # the recursion is stated on the STORED omegas: in an accepted table those of all non-empty proper subsets are positive numbers
        zero_om = [mk for mk in range(1, (1 << n) - 1) if not b2f(a["entries"][mk][3]) > 0]
        if zero_om:
            mk = zero_om[0]
            ctx.violation(f"accepted table stores omega = {b2f(a['entries'][mk][3])!r} for the proper subset {mk:#b} (exact value {float(c['table'][mk][2])!r} > 0): "
                          f"J(g) = sum_e J(g\\e)/omega(g\\e) does not hold on the stored table", r,
                          expected=float(c["table"][mk][2]), observed=b2f(a["entries"][mk][3])); continue
        # edge probabilities sum to one (on the implementation's own numbers)
        for mask in range(1, 1 << n):
            s = sum(Fraction(b2f(js[mask ^ (1 << e)])) / (Fraction(b2f(js[mask])) * Fraction(b2f(a["entries"][mask ^ (1 << e)][3])))
                    for e in range(n) if mask >> e & 1)
            if abs(s - 1) > Fraction(tol) + Fraction(1, 10 ** 12):
                ctx.violation(f"edge probabilities of subgraph {mask:#b} sum to {float(s)!r}, not 1", r, observed=float(s)); break
        if n <= (6 if ctx.quick else 7):
            so = oracle.j_orderings(c["table"], n)
            ctx.count("orderings_sum_checked")
            if abs(Fraction(b2f(js[-1])) - so) > Fraction(tol) * abs(so):
                ctx.violation("J(full) differs from the sum over all E! orderings", r, expected=float(so), observed=b2f(js[-1]))
        dodf = float(c["dod"])
        pole_dist = abs(dodf - round(dodf)) if dodf < 0.5 else 1.0
        if dodf < 0.5 and pole_dist < 1e-6:
            ctx.count("dod_at_gamma_pole_skipped"); continue
        if dodf > 170 or max(c["weights"]) > 170:
            ctx.count("gamma_overflows_f64(normalisation not representable)_skipped"); continue
        if any(w == 0 for w in c["weights"]):
            # 1/Gamma(0) = 0 exactly
            if b2f(a["cached"]) != 0.0:
                ctx.violation(f"a propagator power is exactly 0, so the normalisation J Gamma(dod)/prod Gamma(w) pi^(DL/2) is 0; stored: {b2f(a['cached'])!r}", r,
                              expected=0.0, observed=b2f(a["cached"]))
            continue
        cx = cached_oracle(c, Jx[-1])
        # Gamma(dod) is evaluated at the ROUNDED dod: near 0 (and near other arguments where Gamma varies fast) the rounding of
        # dod = sum w - L D/2 is amplified by |psi(dod)| ~ 1/|dod|
        gsens = 4e-16 * wsum * (1.0 / min(pole_dist, 1.0) + 10.0 + abs(dodf)) + sum(4e-16 * (1.0 / min(w, 1.0) + 10.0) for w in c["weights"])
        if not (abs(b2f(a["cached"]) - cx) <= (1e-11 + tol + gsens) * abs(cx)):
            ctx.violation(f"cached normalisation {b2f(a['cached'])!r} differs from J(full) Gamma(dod)/prod Gamma(w) pi^(DL/2) = {cx!r}", r,
                          expected=cx, observed=b2f(a["cached"]))

    # ---- graphs with 17 edges (131072 subsets; beyond any 16-slot scratch space): banana of 17 equal massive propagators, where J depends on the
    # number of edges only: J(k) = k J(k-1)/omega(k-1), omega(k) = k w - (k-1) D/2 for 0 < k < 17, omega(0) = 1. Also 14 parallel edges in D = 1
    # (13 loops: D L = 13) and one-loop graphs in D = 13
    for nE, D, w in ((17, 1, 0.75), (14, 1, 0.625)) if ctx.quick else ((17, 1, 0.75), (14, 1, 0.625), (17, 2, 1.25), (18, 1, 0.75)):
        r = dict(op="graph", D=D, edges=[[0, 1, f2b(w), True] for _ in range(nE)], ext=[0, 1])
        a = run_harness([r], timeout=600)[0]
        ctx.case(["banana", nE, D, w], nontrivial=True); ctx.count(f"banana{nE}.{a.get('status')}")
        small = dict(r, edges=f"{nE} x [0, 1, {w}, massive]")
        if a.get("status") != "ok":
            ctx.violation(f"build of {nE} parallel massive edges (every proper subset convergent) returned {a.get('status')}: {str(a.get('msg', a.get('error')))[:200]}", small, observed=a.get("status")); continue
        wq = Fraction(w)
        om = [Fraction(1)] + [k * wq - Fraction((k - 1) * D, 2) for k in range(1, nE)]
        Jk = [Fraction(1)]
        for k in range(1, nE + 1):
            Jk.append(k * Jk[k - 1] / om[k - 1])
        bad = None
        for mask, e in enumerate(a["entries"]):
            k = bin(mask).count("1")
            jv = b2f(e[2])
            if not (math.isfinite(jv) and abs(jv - float(Jk[k])) <= 1e-10 * float(Jk[k])):
                bad = (mask, k, jv, float(Jk[k])); break
        if bad:
            ctx.violation(f"{nE} parallel edges: J of a {bad[1]}-edge subset ({bad[0]:#b}) = {bad[2]!r}, the recursion J(k) = k J(k-1)/omega(k-1) gives {bad[3]!r}",
                          small, expected=bad[3], observed=bad[2]); continue
        from mpmath import mp, mpf, gamma as G, pi
        mp.dps = 40
        dod = nE * wq - Fraction((nE - 1) * D, 2)
        cx = mpf(Jk[nE].numerator) / mpf(Jk[nE].denominator) * G(mpf(dod.numerator) / mpf(dod.denominator)) / G(mpf(w)) ** nE * pi ** (mpf((nE - 1) * D) / 2)
        if not abs(mpf(b2f(a["cached"])) - cx) <= mpf(1e-10) * abs(cx):
            ctx.violation(f"{nE} parallel edges, D = {D}: cached normalisation {b2f(a['cached'])!r}, expected {float(cx)!r}", small, expected=float(cx), observed=b2f(a["cached"]))
    # ---- the table and the normalisation of a sampler built through the PUBLIC path do not depend on the supplied signature (its shape
    # included): Graph::build_sampler with a fundamental signature, with surplus columns and with a missing column
    from .. import kin
    breqs, binfo = [], []
    for c, a in [(c, a) for c, a in zip(cases, impl) if a.get("status") == "ok"][: (20 if ctx.quick else 120)]:
        Sg, _ = kin.fundamental_signature(rng, c["edges"])
        for variant, sig in (("fundamental", Sg), ("extra_column", [row + [0] for row in Sg]), ("two_extra_columns", [row + [1, -1] for row in Sg]),
                             ("missing_column", [row[:-1] for row in Sg])):
            breqs.append(dict(graphs.request(c), op="build", sig=sig)); binfo.append((c, a, variant))
    for r, b, (c, a, variant) in zip(breqs, run_harness(breqs), binfo):
        ctx.case(["api", r["edges"], r["weights"] if "weights" in r else None, r["D"], variant], nontrivial=True); ctx.count(f"api_build.{variant}")
        if b.get("status") != "ok":
            ctx.violation(f"build_sampler fails ({b.get('status')}) for an accepted graph with a {variant} signature", r, observed=b); continue
        if b["table"] != a["table"]:
            ta, tb = a["table"], b["table"]
            diff = [k for k in ta if ta.get(k) != tb.get(k)] if isinstance(ta, dict) else "table"
            ctx.violation(f"the table of a sampler built through Graph::build_sampler with a {variant} signature differs from the table of the graph "
                          f"(fields {diff}): J, omega and the cached normalisation are functions of the graph alone", r,
                          expected={k: (ta[k] if k != "entries" else "...") for k in diff} if isinstance(diff, list) else None,
                          observed={k: (tb[k] if k != "entries" else "...") for k in diff} if isinstance(diff, list) else None)

    # ---- the same graph built through the public path for ANOTHER dimension afterwards (same process, same thread): the table is a function
    # of (graph, D) - J, omega and the normalisation of the second build are those of its own dimension
    dreqs, dinfo = [], []
    for c, a in [(c, a) for c, a in zip(cases, impl) if a.get("status") == "ok" and len(c["edges"]) <= 6][: (8 if ctx.quick else 40)]:
        D2 = c["D"] + 1 if c["D"] < 6 else c["D"] - 1
        Sg, _ = kin.fundamental_signature(rng, c["edges"])
        r1 = dict(graphs.request(c), op="build", sig=Sg)
        r2 = dict(r1, D=D2)
        h2 = dict(graphs.request(c), D=D2)            # the hook-level table for the other dimension
        dreqs += [r1, r2, h2]; dinfo.append((c, D2))
    dres = run_harness(dreqs)
    for i, (c, D2) in enumerate(dinfo):
        b1, b2, h2 = dres[3 * i], dres[3 * i + 1], dres[3 * i + 2]
        ctx.case(["two_dimensions", c["edges"], c["weights"], c["D"], D2], nontrivial=True); ctx.count("api_build.second_dimension")
        if b2.get("status") != h2.get("status") or (b2.get("status") == "ok" and b2.get("table") != h2.get("table")):
            ctx.violation(f"Graph::build_sampler::<{D2}> after build_sampler::<{c['D']}> of the same graph in one process: status {b2.get('status')} / table differ from "
                          f"generate_from_tropical for D = {D2} ({h2.get('status')})", dict(dreqs[3 * i + 1], first_built_for_D=c["D"]),
                          expected=h2.get("status"), observed=b2.get("status") if b2.get("status") != h2.get("status") else "a different table")

    # ---- the probabilities J(g\e)/(omega(g\e) J(g)) and the normalisation as the GENERIC code uses them: a few samples with a user scalar type
    # that wraps f64 arithmetic must come back bit for bit as with f64 (table constants lifted with from_f64, divided in the user's type)
    from .. import sample_checks as SC_
    ss = S_.generate(ctx, 4 if ctx.quick else 16, 3, max_e=5, max_loops=3, routings_per_graph=1, kinds=("uniform",))
    S_.run(ss)
    SC_.generic_scalar_guard(ctx, ss, k=8 if ctx.quick else 32)
