"""C04 — J-function obeys its recursion exactly; I_tr and the cached normalisation follow."""
import math
from fractions import Fraction
from ..core import f2b, b2f, run_harness, run_driver
from ..cmp import cmp_record, bits_close, cmp_bits_list
from .. import gen, oracle, graphs

MODULE = "Momtrop.Props.C04R"
THEOREMS = ["Momtrop.C04.memo_sound", "Momtrop.C04.J_empty", "Momtrop.C04.J_rec", "Momtrop.C04.table_j", "Momtrop.C04.edge_probs_sum_one", "Momtrop.C04.cachedFactor_eq", "Momtrop.C04.J_eq_sum_orderings", "Momtrop.C04.J_full_eq_sum_orderings", "Momtrop.C04.orderingsAux_length", "Momtrop.C04.orderingsAux_perm", "Momtrop.C04.orderingsAux_nodup", "Momtrop.C04.orderProb_eq", "Momtrop.C04.complete_order_exhausts", "Momtrop.C04.orderProb_sum_one"]
RULE = ("accepted catalogue + random multigraphs (E<=6 quick / 8 thorough), D=1..6, rational k/12, unit and random weights, "
        "mixed masses; J of all 2^E subsets vs the exact Fraction recursion, the sum over all E! orderings (E<=6 quick, <=7 thorough), "
        "cached factor vs mpmath (40 digits); same topology is rebuilt with other weights inside one process. "
        "Non-trivial: accepted, >=3 edges, not all weights equal")
ASSUMPTIONS = ["tolerance for J: 1e-12 * E * (1 + sum|w| / min|omega|) relative; cached factor 1e-11 relative"]


def cached_oracle(c, Jfull):
    from mpmath import mp, mpf, gamma as G, pi
    mp.dps = 40
    dod = mpf(c["dod"].numerator) / mpf(c["dod"].denominator)
    val = mpf(Jfull.numerator) / mpf(Jfull.denominator) * G(dod)
    for w in c["weights"]:
        val /= G(mpf(w))
    val *= pi ** (mpf(c["D"] * c["loops"]) / 2)
    return float(val)


def run(ctx):
    rng = ctx.rng
    cases = graphs.case_stream(rng, 50 if ctx.quick else 400, max_e=6 if ctx.quick else 8, accepted_fraction=1.0)
    cases = [c for c in cases if c["accepted"]]
    # the same topology again with other weights / other D (history inside one process)
    extra = []
    for c in cases[:: 3]:
        for c2 in (graphs.make_case(rng, c["edges"], rng.randint(1, 6), want=True), graphs.reweight(rng, c)):
            if c2 is not None and c2["accepted"]:
                c2 = dict(c2); c2["name"] = c["name"] + "+rebuild"; extra.append(c2)
    cases += extra
    # edges with a tiny weight: proper subsets with 0 < omega < 2^-52 are accepted and dominate J
    for tiny in (2.0 ** -60, 2.0 ** -55, 1e-20):
        for edges, w, massive, ext, D in (([(0, 1), (1, 2), (2, 0)], [tiny, 1.0, 1.0], [True, False, False], [0, 1, 2], 3),
                                          ([(0, 1), (0, 1)], [2.0, tiny], [True, True], [0, 1], 3),
                                          ([(0, 1), (1, 2), (2, 3), (3, 0)], [1.0, tiny, 1.0, 1.0], [False, True, False, False], [0, 1, 2, 3], 3)):
            dod, Lf, table = oracle.table_oracle(edges, w, massive, ext, D)
            if not oracle.divergent_subsets(table):
                cases.append(dict(edges=edges, weights=w, massive=massive, ext=ext, D=D, table=table, dod=dod, loops=Lf, accepted=True,
                                  name="tiny_weight"))
    # huge propagator powers (products of weights overflow although every J is an ordinary number), and powers that differ only beyond
    # single precision
    for edges, w, massive, ext, D in (([(0, 1), (1, 2), (2, 3), (3, 4), (4, 0)], [1e80, 1e80, 1e80, 1e80, 1.0], [True] * 5, [0, 1, 2, 3, 4], 3),
                                      ([(0, 1), (1, 2), (2, 0)], [1e150, 1e160, 2.0], [True] * 3, [0, 1, 2], 3),
                                      ([(0, 1), (1, 2), (2, 0)], [2.0 / 3, 2.0 / 3 + 3e-9, 0.7], [False] * 3, [0, 1, 2], 3),
                                      ([(0, 1), (0, 1)], [1.0 + 2e-9, 1.0, ], [True, True], [0, 1], 3),
                                      ([(0, 1), (1, 2), (2, 3), (3, 0)], [0.8, 0.8 * (1 + 4e-8), 0.8 * (1 - 3e-8), 0.9], [False] * 4, [0, 1, 2, 3], 3)):
        dod, Lf, table = oracle.table_oracle(edges, w, massive, ext, D)
        if not oracle.divergent_subsets(table):
            cases.append(dict(edges=edges, weights=w, massive=massive, ext=ext, D=D, table=table, dod=dod, loops=Lf, accepted=True,
                              name="extreme_or_nearly_equal_weights"))
    # parallel propagators with EQUAL powers of which only some are massive (indistinguishable by end points and weight, not by mass)
    for _ in range(6 if ctx.quick else 40):
        name = rng.choice(["bubble", "sunrise", "banana4", "bubble_chain", "bubble_leg", "box_doubled"])
        edges, _, _ = gen.relabel(rng, list(gen.CATALOGUE[name]))
        D = rng.randint(2, 4)
        n = len(edges)
        massive = [rng.random() < 0.5 for _ in range(n)]
        if all(massive) or not any(massive):
            massive[0] = not massive[0]
        ext = sorted(set(v for e in edges for v in e))
        L = oracle.subset_info(edges, massive, ext, (1 << n) - 1)[0]
        w = [(L * D / 2.0 + rng.uniform(0.3, 1.5)) / n] * n
        dod, Lf, table = oracle.table_oracle(edges, w, massive, ext, D)
        if not oracle.divergent_subsets(table):
            cases.append(dict(edges=edges, weights=w, massive=massive, ext=ext, D=D, table=table, dod=dod, loops=Lf, accepted=True,
                              name="parallel_equal_weights_mixed_masses"))
    for c in list(cases[:: 4]):
        for delta in (2.0 ** -60, 1e-17, 1e-13):
            t = graphs.near_threshold(rng, c, delta)
            if t is not None and t["accepted"]:
                t = dict(t); t["name"] = c["name"] + "+tiny_omega"; cases.append(t)
    reqs = [graphs.request(c) for c in cases]
    impl = run_harness(reqs)
    q2, idx = [], []
    for i, (c, r, a) in enumerate(zip(cases, reqs, impl)):
        if a.get("status") == "ok":
            n = len(c["edges"])
            q2.append({"op": "jfill", "n": n, "dods": [e[3] for e in a["entries"]]}); idx.append(i)
            q2.append(dict(r, op="cached", numLoops=a["numLoops"], dod=a["dod"], iTr=a["entries"][-1][2], gammas=a["gammas"])); idx.append(i)
    m2 = run_driver(q2)
    mj = {i: m for i, q, m in zip(idx, q2, m2) if q["op"] == "jfill"}
    mc = {i: m for i, q, m in zip(idx, q2, m2) if q["op"] == "cached"}
    for i, (c, r, a) in enumerate(zip(cases, reqs, impl)):
        n = len(c["edges"])
        nontriv = a.get("status") == "ok" and n >= 3 and len(set(c["weights"])) > 1
        ctx.case(r, nontrivial=nontriv, sample={"edges": c["edges"], "weights": c["weights"], "D": c["D"], "massive": c["massive"], "ext": c["ext"]} if i % 25 == 0 else None)
        ctx.count(f"impl.{a.get('status')}"); ctx.count(f"E={n}")
        if a.get("status") == "panic":
            ctx.violation("build panicked", r, observed=a); continue
        if a.get("status") != "ok":
            if c["accepted"] and min(abs(c["table"][mk][2]) for mk in range(1, max(2, (1 << n) - 1))) > Fraction(1, 10 ** 9):
                ctx.count("rejected_though_exact_accepts(C05)")
            continue
        js = [e[2] for e in a["entries"]]
        # ---- correspondence (modular: the model is fed the implementation's own generalised dods)
        m = mj[i]
        if "error" in m:
            ctx.mismatch("fillJ model vs recursive_fill_j_function", r, None, m); continue
        d = cmp_bits_list(ctx, js, m["j"], ulps=4)
        if d:
            ctx.mismatch("fillJ model (memoised, on the implementation's dods) vs table j_function", r, {"j": js}, m, d)
        if m["j"] != m["jspec"]:
            ctx.mismatch("model-internal: memoised fill differs from the direct recursion jSpec", r, None, m)
        mcr = mc[i]
        d = cmp_bits_list(ctx, [a["cached"]], [mcr.get("cached")], ulps=8) if "cached" in mcr else "driver error"
        if d:
            ctx.mismatch("cachedFactor model vs cached_factor", r, {"cached": a["cached"]}, mcr, d)
        # ---- oracle
        Jx = oracle.j_exact(c["table"], n)
        wsum = float(sum(abs(w) for w in c["weights"])) + c["loops"] * c["D"]
        omin = float(min(abs(c["table"][mk][2]) for mk in range((1 << n) - 1)))
        tol = 1e-12 * n * (1 + wsum / omin) * n
        bad = None
        for mask in range(1 << n):
            jv = b2f(js[mask]); ex = float(Jx[mask])
            if not (math.isfinite(jv) and abs(jv - ex) <= tol * abs(ex)):
                bad = (mask, jv, ex); break
        if bad:
            ctx.violation(f"J of subset {bad[0]:#b} = {bad[1]!r} differs from the exact recursion value {bad[2]!r} (tol {tol:.1e} rel)", r,
                          expected=bad[2], observed=bad[1]); continue
        if b2f(js[0]) != 1.0:
            ctx.violation("J(empty) != 1", r, observed=b2f(js[0]))
        # edge probabilities sum to one (on the implementation's own numbers)
        for mask in range(1, 1 << n):
            s = sum(Fraction(b2f(js[mask ^ (1 << e)])) / (Fraction(b2f(js[mask])) * Fraction(b2f(a["entries"][mask ^ (1 << e)][3])))
                    for e in range(n) if mask >> e & 1)
            if abs(s - 1) > Fraction(tol) + Fraction(1, 10 ** 12):
                ctx.violation(f"edge probabilities of subgraph {mask:#b} sum to {float(s)!r}, not 1", r, observed=float(s)); break
        if n <= (6 if ctx.quick else 7):
            so = oracle.j_orderings(c["table"], n)
            ctx.count("orderings_sum_checked")
            if abs(Fraction(b2f(js[-1])) - so) > Fraction(tol) * abs(so):
                ctx.violation("J(full) differs from the sum over all E! orderings", r, expected=float(so), observed=b2f(js[-1]))
        dodf = float(c["dod"])
        pole_dist = abs(dodf - round(dodf)) if dodf < 0.5 else 1.0
        if dodf < 0.5 and pole_dist < 1e-6:
            ctx.count("dod_at_gamma_pole_skipped"); continue
        if dodf > 170 or max(c["weights"]) > 170:
            ctx.count("gamma_overflows_f64(normalisation not representable)_skipped"); continue
        cx = cached_oracle(c, Jx[-1])
        # Gamma(dod) is evaluated at the ROUNDED dod: near 0 (and near other arguments where Gamma varies fast) the rounding of
        # dod = sum w - L D/2 is amplified by |psi(dod)| ~ 1/|dod|
        gsens = 4e-16 * wsum * (1.0 / min(pole_dist, 1.0) + 10.0 + abs(dodf)) + sum(4e-16 * (1.0 / min(w, 1.0) + 10.0) for w in c["weights"])
        if not (abs(b2f(a["cached"]) - cx) <= (1e-11 + tol + gsens) * abs(cx)):
            ctx.violation(f"cached normalisation {b2f(a['cached'])!r} differs from J(full) Gamma(dod)/prod Gamma(w) pi^(DL/2) = {cx!r}", r,
                          expected=cx, observed=b2f(a["cached"]))
