"""C07 — Feynman parameters follow the sector formula and the tropical normalisation."""
from fractions import Fraction
import math
from ..core import f2b, b2f
from .. import samples as S, sample_checks as SC, kin, exact as X, oracle

MODULE = "Momtrop.Props.C07Attain"
THEOREMS = ["Momtrop.C07.rescaling_common", "Momtrop.C07.scaling_def", "Momtrop.C07.removal_step", "Momtrop.C07.last_step", "Momtrop.C07.rescaling_normalises", "Momtrop.C07.permLoop_trace", "Momtrop.C07.chain_nodup", "Momtrop.C07.replay_get", "Momtrop.C07.sector_formula", "Momtrop.C07.sector_monotone", "Momtrop.C07.permLoop_trop", "Momtrop.loopNumber_drop_iff", "Momtrop.bridge_mono", "Momtrop.loopNumber_perm", "Momtrop.C07.loopsOf_nullity", "Momtrop.C07.cotree_iff_maximal_forest", "Momtrop.C07.greedySet_cotree", "Momtrop.C07.greedy_max", "Momtrop.C07.uTrop_largest_monomial", "Momtrop.C07.permTrace_complete", "Momtrop.C07.tropReplay_fst", "Momtrop.C07.uTrop_is_largest_monomial", "Momtrop.C07.preEntry_loops", "Momtrop.C07.greedyProd_smul", "Momtrop.C07.majorization", "Momtrop.C07.polytope_max", "Momtrop.C07.mass_term_le", "Momtrop.C07.tropReplay_snd", "Momtrop.C07.run_facts", "Momtrop.C07.uv_trop", "Momtrop.C07.F_polytope_max", "Momtrop.C07.mass_terms_le", "Momtrop.C07.mmOf_spanLike", "Momtrop.C07.mmOf_contains_massive", "Momtrop.C07.premises_of_preEntry", "Momtrop.C07.conn_transfer", "Momtrop.C07.removed_edge_joined", "Momtrop.C07.momentum_term_le", "Momtrop.C07.uv_decomposition", "Momtrop.C07.mmOf_conn", "Momtrop.C07.momentum_terms_le", "Momtrop.C07.add_edge_split", "Momtrop.C07.joined_closes_cycle", "Momtrop.C07.forest_conn", "Momtrop.C07.split_persist", "Momtrop.C07.uv_attained_momentum", "Momtrop.C07.mmOf_of_joined", "Momtrop.C07.uv_is_monomial", "Momtrop.C07.tropical_values_bound_all_monomials"]
RULE = ("accepted connected graphs with 1..3 (quick) / 1..4 (thorough) loops, mixed massive/massless edges, D=1..6 odd and even, "
        "uniform/corner points; pre-rescaling parameters vs the sector formula (mpmath), logged U_tr/V_tr vs the brute-force maximal "
        "monomials of U and F/U (exact), normalisation at the rescaled parameters. Non-trivial: L>=1, >=3 edges, removal order not the identity"
        " Families: tiny xi (1e-17..5e-324), two-point polygons (30 points each), self-loops, integer degrees of divergence, massless vacuum graphs with supplied masses; the sector formula uses the exact omega of the oracle, tolerance scaled by sum |ln xi|/omega; generic-scalar guard.")
ASSUMPTIONS = ["sector formula compared at 1e-12 E relative; normalisation at 1e-11; maximal monomials at 16 ulp"]


def definition_audit(c, ext_vertices, sup, x):
    """None if the index sets agree, else a short description"""
    edges, n, table = c["edges"], len(c["edges"]), c["table"]
    full = (1 << n) - 1
    L = table[full][0]
    pc = lambda m: bin(m).count("1")
    cot = [C for C in range(1 << n) if pc(C) == L and table[full & ~C][0] == 0]
    if len(cot) != sup["ntrees"]:
        return f"{len(cot)} cotrees, {sup['ntrees']} spanning trees"
    def mono(C):
        v = Fraction(1)
        for e in range(n):
            if C >> e & 1:
                v *= x[e]
        return v
    if sorted(mono(C) for C in cot) != sorted(sup["Umon"]):
        return "cotree monomials differ from the spanning-tree monomials of U"
    def split(mask):
        uf = oracle.UF()
        for e in range(n):
            if mask >> e & 1:
                uf.union(edges[e][0], edges[e][1])
        return len(set(uf.find(v) for v in ext_vertices)) >= 2
    keys = set()
    for C in cot:
        for e in range(n):
            if c["massive"][e]:
                keys.add(tuple((1 if C >> i & 1 else 0) + (1 if i == e else 0) for i in range(n)))
    for C in range(1 << n):
        if pc(C) == L + 1 and table[full & ~C][0] == 0 and split(full & ~C):
            keys.add(tuple(1 if C >> i & 1 else 0 for i in range(n)))
    if keys != set(sup["Fmon"].keys()):
        return f"F: {len(keys)} monomials by the definitions, {len(sup['Fmon'])} by the 2-forest enumeration"
    return None


def run(ctx):
    from mpmath import mp, mpf
    mp.dps = 40
    ss = S.generate(ctx, 18 if ctx.quick else 150, 3 if ctx.quick else 6, max_e=6 if ctx.quick else 7,
                    max_loops=3 if ctx.quick else 4, routings_per_graph=1, kinds=("uniform", "tiny_xi", "corner"))
    # multi-loop graphs with mixed massive/massless edges: one removal can lower the loop number AND lose mass-spanning
    ss += S.generate(ctx, 10 if ctx.quick else 60, 6 if ctx.quick else 10, max_e=6, max_loops=4, routings_per_graph=1,
                     names=["sunrise", "banana4", "double_triangle", "kite", "bubble_chain", "triangle_tadpole"], mass_mode="some",
                     kinds=("uniform",))
    # two-point functions (externals = end points of one propagator): the LAST removed edge can still be mass-momentum spanning
    ss += S.generate(ctx, 6 if ctx.quick else 30, 8 if ctx.quick else 20, max_e=5, max_loops=3, routings_per_graph=1, kinds=("uniform",),
                     names=["bubble", "triangle", "sunrise", "box", "bubble_leg", "kite", "pentagon"], ext_modes=["edge"])
    # polygons as two-point functions, many sectors: disconnected subgraphs whose externals sit on the component of a HIGHER edge
    ss += S.generate(ctx, 4 if ctx.quick else 16, 30 if ctx.quick else 60, max_e=6, max_loops=1, routings_per_graph=1, kinds=("uniform",),
                     names=["box", "pentagon"], ext_modes=["edge"])
    # graphs with self-loops: a tadpole removed LAST still lowers the loop number
    ss += S.generate(ctx, 5 if ctx.quick else 25, 8 if ctx.quick else 20, max_e=5, max_loops=3, routings_per_graph=1, kinds=("uniform",),
                     names=["tadpole", "tadpole_pair", "triangle_tadpole", "sunrise_tadpole"])
    ss += S.generate(ctx, 0, 3 if ctx.quick else 6, routings_per_graph=1, kinds=("uniform",),
                     special=("integer_dod:4", "integer_dod:2", "integer_dod:3", "integer_dod:6", "vacuum_massless", "vacuum_massless", "vacuum_mixed", "vacuum_mixed", "vacuum") * (1 if ctx.quick else 4))
    # a remainder that is ALMOST logarithmically divergent (omega = 1e-3 .. 1e-6: exponents 1/omega up to a million): the parameter of the next
    # edge is xi^(1/omega) whatever the size of the exponent
    from .. import graphs as G_
    tiny = []
    base_cases = [s["case"] for s in ss[:: 7] if len(s["case"]["edges"]) >= 2][: (8 if ctx.quick else 40)]
    for c0 in base_cases:
        for delta in (1e-3, 2e-4, 1e-5, 1e-6):
            t = G_.near_threshold(ctx.rng, c0, delta)
            if t is not None and t["accepted"] and t["dod"] > 0:
                t = dict(t); t["name"] = c0["name"] + "+tiny_omega"; t["loops"] = c0["loops"]; tiny.append(t)
    ss += S.samples_for_cases(ctx, tiny[: (10 if ctx.quick else 60)], 2, kinds=("uniform", "corner"))
    ss += S.samples_for_cases(ctx, S.big_dimension_cases(ctx.rng), 2)      # D = 260 (the rescaling exponent D/2 L beyond a byte) and D = 13
    ss += S.generate(ctx, 0, 2, routings_per_graph=1, kinds=("uniform",), special=("unit_j",) * (3 if ctx.quick else 12))
    S.run(ss)
    SC.corr_perm(ctx, ss)
    SC.generic_scalar_guard(ctx, ss[:: 9], k=8)
    SC.nolog_agreement(ctx, ss[:: 5], k=16)      # the default-feature build (println! debugging) with print_debug_info off and on
    for s in ss:
        a, c, r = s["impl"], s["case"], s["routing"]
        nl, D, n = r["L"], c["D"], len(c["edges"])
        x_b, xpre_b, utr_b, vtr_b = S.feynman_from_log(a)
        # after the common rescaling the tropical polynomials are 1: that is what the RETURNED u_trop, v_trop say (the pre-rescaling values
        # are only logged)
        if a.get("status") == "ok" and (a.get("uTrop") != f2b(1.0) or a.get("vTrop") != f2b(1.0)):
            ctx.violation("the sample returns u_trop, v_trop different from 1 although the parameters it used are rescaled so that U_tr^(D/2) V_tr^dod = 1 "
                          "with both tropical polynomials normalised", S.small_req(s), expected=[f2b(1.0), f2b(1.0)], observed=[a.get("uTrop"), a.get("vTrop")])
            continue
        order = None
        if xpre_b and SC.finite(xpre_b):
            xp = [b2f(b) for b in xpre_b]
            order = sorted(range(n), key=lambda e: (-xp[e], e))
            mo = s.get("model_perm", {}).get("order")
            if mo and sorted(mo) == list(range(n)) and all(xp[mo[i]] >= xp[mo[i + 1]] for i in range(n - 1)):
                order = mo
        ctx.case([s["req"]["x"][: 2 * n - 2], c["edges"], c["weights"], D, c["massive"], c["ext"]],
                 nontrivial=(n >= 3 and order is not None and order != list(range(n))),
                 sample={"graph": c["name"], "edges": c["edges"], "D": D, "order": order, "x": s["xs"][: 2 * n - 2]} if len(ctx.samples) < 4 and n >= 3 else None)
        ctx.count(f"L={nl}"); ctx.count(f"D={D}"); ctx.count(f"status.{a.get('status')}")
        ctx.count("mixed_masses" if 0 < sum(c["massive"]) < n else "uniform_masses")
        if a.get("status") == "panic":
            ctx.violation("sample panicked", S.small_req(s), observed=a); continue
        if xpre_b is None or order is None:
            continue
        xs = s["xs"]
        ent = s["table"]["entries"]
        # ---- sector formula: x_pre[s_k] = prod_{j<k} xi_j^(1/omega(g_j)),  xi_j = xs[2j-1]
        g = (1 << n) - 1
        kappa = mpf(1)
        okf = True
        amp = mpf(0)     # sum_j |ln xi_j| / omega_j: how strongly the f64 rounding of omega and of 1/omega is amplified by xi^(1/omega)
        for kstep, e in enumerate(order):
            got = mpf(xp[e])
            if abs(got - kappa) > (mpf(1e-12) * n + mpf(1e-15) * amp) * abs(kappa) + mpf(10) ** -320:
                ctx.violation(f"pre-rescaling parameter of the {kstep+1}-th removed edge {e} is {xp[e]!r}, the sector formula gives {float(kappa)!r}",
                              S.small_req(s), expected=float(kappa), observed=xp[e]); okf = False; break
            g ^= 1 << e
            if g == 0:
                break
            xi = mpf(xs[2 * kstep + 1])
            # omega(g_j) from the exact oracle (the property's generalised degree of divergence), not from the sampler's own table
            om_exact = c["table"][g][2]
            om = mpf(om_exact.numerator) / mpf(om_exact.denominator)
            if om <= 0 or xi == 0:
                okf = None; break
            kappa = kappa * xi ** (1 / om)
            amp += abs(mp.log(xi)) / om * (1 + 1 / om)
        if okf is None:
            ctx.count("sector_formula_not_applicable(zero xi or non-positive omega)"); continue
        if not okf:
            continue
        # ---- tropical polynomials = maximal monomials (brute force, exact)
        xpre = SC.fr_list(xpre_b)
        if any(t <= 0 for t in xpre):
            ctx.count("zero_parameter_skipped"); continue
        gen_mom = {vtx: [Fraction(1000003 * (i + 1) + 17 * i * i)] for i, vtx in enumerate(sorted(r["ext_mom"]))}
        if gen_mom:
            tot = sum(p[0] for p in gen_mom.values()); k0 = sorted(gen_mom)[0]; gen_mom[k0] = [gen_mom[k0][0] - tot]
        sup = kin.symanzik(c["edges"], xpre, gen_mom, [Fraction(1) if m else Fraction(0) for m in c["massive"]], 1)
        # supporting test of the DEFINITIONS the Lean theorems of C07Greedy/C07Forest/C07Attain are stated with: cotrees (loops(S-C) = 0,
        # |C| = L) are the complements of the spanning trees the oracle enumerates, and mass terms + complements of 2-forests separating two
        # external vertices are exactly the monomials of F with a non-zero coefficient for generic momenta
        akey = (tuple(c["edges"]), tuple(c["massive"]), tuple(sorted(gen_mom)))
        if n <= 8 and akey not in ctx.extra.setdefault("_defaudit", set()):
            ctx.extra["_defaudit"].add(akey)
            ctx.count("definition_audit")
            bad = definition_audit(c, sorted(gen_mom), sup, xpre)
            if bad:
                ctx.mismatch("definitions used by the Lean theorems (Cotree / Split) vs the oracle's spanning trees and 2-forests", S.small_req(s), bad, None, bad)
        if not sup["Fmon"]:
            ctx.count("F_without_monomials_skipped"); continue
        Utr = max(sup["Umon"]); Ftr = max(val for _, val in sup["Fmon"].values()); Vtr = Ftr / Utr
        if not SC.finite([utr_b, vtr_b]):
            ctx.count("nonfinite_tropical_value_skipped"); continue
        ut, vt = Fraction(b2f(utr_b)), Fraction(b2f(vtr_b))
        if min(float(Utr), float(Vtr), float(Ftr), float(ut), float(vt)) < 1e-290 or max(float(Utr), float(Vtr), float(Ftr)) > 1e290:
            ctx.count("tropical_value_under_or_overflows_f64_skipped"); continue
        # ties between monomials make the greedy choice ambiguous only on a null set; compare values
        if abs(ut - Utr) > 32 * SC.EPS * Utr:
            ctx.violation(f"logged u_trop {float(ut)!r} is not the largest monomial of U ({float(Utr)!r}) at the sampled parameters", S.small_req(s),
                          expected=float(Utr), observed=float(ut)); continue
        if abs(vt - Vtr) > 32 * SC.EPS * Vtr:
            ctx.violation(f"logged v_trop {float(vt)!r} is not (largest monomial of F)/(largest monomial of U) = {float(Vtr)!r}", S.small_req(s),
                          expected=float(Vtr), observed=float(vt)); continue
        # ---- normalisation at the rescaled parameters
        if x_b is None or not SC.finite(x_b):
            continue
        x = SC.fr_list(x_b)
        if any(t <= 0 for t in x):
            ctx.count("zero_rescaled_parameter_skipped"); continue
        sup2 = kin.symanzik(c["edges"], x, gen_mom, [Fraction(1) if m else Fraction(0) for m in c["massive"]], 1)
        U2 = max(sup2["Umon"]); V2 = max(val for _, val in sup2["Fmon"].values()) / U2
        dod = mpf(b2f(s["built"]["dod"]))
        val = (mpf(U2.numerator) / mpf(U2.denominator)) ** (mpf(D) / 2) * (mpf(V2.numerator) / mpf(V2.denominator)) ** dod
        if abs(val - 1) > mpf(1e-11) * (D / 2 * nl + float(dod) + 1):
            ctx.violation(f"after the rescaling U_tr^(D/2) V_tr^dod = {float(val)!r}, not 1", S.small_req(s), expected=1.0, observed=float(val))
        # all parameters rescaled by one common factor
        # (parameters in or next to the subnormal range carry fewer than 53 bits: excluded from the bit-level ratio test)
        ratios = [x[e] / xpre[e] for e in range(n) if min(float(x[e]), float(xpre[e])) > 1e-290] or [Fraction(1)]
        if max(ratios) - min(ratios) > 8 * SC.EPS * max(ratios):
            ctx.violation("the rescaling is not one common factor for all Feynman parameters", S.small_req(s), observed=[float(t) for t in ratios])
