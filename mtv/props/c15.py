"""C15 — decompose_for_tropical returns the true determinant, inverse and Cholesky factors."""
from fractions import Fraction
from ..core import f2b, b2f, run_harness, run_driver
from ..cmp import cmp_bits_list
from .. import exact as X
from .. import gen

MODULE = "Momtrop.Props.C15PD"
THEOREMS = ["Momtrop.C15.decompose_none", "Momtrop.C15.decompose_ok_of_pivotsPos", "Momtrop.C15.factor_correct",
            "Momtrop.C15.factor_upper_pos", "Momtrop.C15.qTInv_correct", "Momtrop.C15.inverse_correct",
            "Momtrop.C15.determinant_correct", "Momtrop.C15.ex_pivotsPos", "Momtrop.C15.ex_symm", "Momtrop.pivotsPos_of_posDef", "Momtrop.C15.decompose_correct_of_posDef"]
RULE = ("symmetric positive-definite matrices n=1..8 from five families (random B^T B+ridge, graded, Hilbert-like, "
        "integer, graph L matrices), exact SPD test and exact condition number (Fractions), cond<=1e10; "
        "non-trivial when n>=3; distinct = distinct matrix bits")
ASSUMPTIONS = ["tolerance 100 n^2 eps cond_inf(A) (relative to the largest entry) as the property states; cond computed exactly"]


def tol_for(n, cond):
    return 100 * n * n * X.EPS * cond


def through_samples(ctx):
    """the decomposition a SAMPLE reports (Metadata.decompoisiton_result) is the decomposition of the L matrix it reports (Metadata.l_matrix):
    same exact-rational oracle as for the routine called directly; multi-loop graphs, kinematic scales 2^-33 .. 2^30 (the rescaled Feynman
    parameters, hence the entries of L, span many binades)"""
    from .. import samples as S
    ss = S.generate(ctx, 8 if ctx.quick else 40, 3, max_e=6, max_loops=4, routings_per_graph=1, kinds=("uniform",),
                    names=["sunrise", "double_triangle", "kite", "banana4", "mercedes", "bubble_chain", "banana5"],
                    scales=(1, Fraction(1, 2 ** 33), 2 ** 30, Fraction(1, 2 ** 10), 2 ** 12))
    S.run(ss)
    for s in ss:
        a = s["impl"]
        if a.get("status") != "ok" or not a.get("meta"):
            continue
        n = s["routing"]["L"]
        lb = a["meta"]["l"]; dec = a["meta"].get("decomp") or {}
        if dec.get("status") != "ok" or not all(X.is_finite_bits(b) for b in lb):
            continue
        Af = X.mat_from_bits(n, lb)
        if not X.leading_minors_positive(Af):
            continue
        cond = X.cond_inf(Af)
        if cond is None or cond > 10 ** 9:
            ctx.count("through_samples.cond_skipped"); continue
        ctx.case(["through_sample", lb], nontrivial=n >= 2); ctx.count("through_samples.checked"); ctx.count(f"through_samples.n={n}")
        check_outputs(ctx, dict(S.small_req(s), through="sample: Metadata.decompoisiton_result vs Metadata.l_matrix"), n, Af, cond, dec)


def check_outputs(ctx, req, n, A, cond, out):
    """exact-rational oracle on the implementation's four outputs"""
    t = tol_for(n, cond)
    for k in ("det", "inv", "qt", "qti"):
        vals = [out[k]] if k == "det" else out[k]
        if not all(X.is_finite_bits(b) for b in vals):
            ctx.violation(f"decompose_for_tropical returned a non-finite {k} for an SPD matrix", req, observed=out)
            return
    qt = X.mat_from_bits(n, out["qt"]); qti = X.mat_from_bits(n, out["qti"]); inv = X.mat_from_bits(n, out["inv"])
    detv = X.fr_bits(out["det"])
    # q_transposed upper triangular with positive diagonal
    for i in range(n):
        if qt[i][i] <= 0:
            ctx.violation("q_transposed has a non-positive diagonal entry", req, observed=out); return
        for j in range(i):
            if qt[i][j] != 0:
                ctx.violation("q_transposed is not upper triangular", req, observed=out); return
    amax = X.max_abs(A)
    r1 = X.max_abs(X.sub(X.matmul(X.transpose(qt), qt), A)) / amax
    if r1 > t:
        ctx.violation(f"q_transposed^T q_transposed differs from the matrix: rel {float(r1):.3e} > tol {float(t):.3e}", req, observed=out); return
    r2 = X.max_abs(X.sub(X.matmul(qti, qt), X.identity(n)))
    if r2 > t:
        ctx.violation(f"q_transposed_inverse * q_transposed differs from identity: {float(r2):.3e} > tol {float(t):.3e}", req, observed=out); return
    Ai = X.inverse(A)
    r3 = X.max_abs(X.sub(inv, Ai)) / X.max_abs(Ai)
    if r3 > t:
        ctx.violation(f"inverse differs from the exact inverse: rel {float(r3):.3e} > tol {float(t):.3e}", req, observed=out); return
    d = X.det(A)
    r4 = abs(detv - d) / abs(d)
    if r4 > t and abs(detv - d) > Fraction(1, 2 ** 1072):      # (a subnormal determinant is only resolved to 2^-1074)
        ctx.violation(f"determinant differs from the exact determinant: rel {float(r4):.3e} > tol {float(t):.3e}", req, observed=out); return
    worst = max(r1, r2, r3, r4) / t
    ctx.extra["worst_error_over_tolerance"] = max(ctx.extra.get("worst_error_over_tolerance", 0.0), float(worst))


def run(ctx):
    rng = ctx.rng
    per = 6 if ctx.quick else 60
    reqs, infos = [], []
    for n in range(1, 9):
        for fam, f in gen.SPD_FAMILIES:
            made, tries = 0, 0
            while made < per and tries < per * 20:
                tries += 1
                A = f(rng, n)
                Af = [[Fraction(x) for x in r] for r in A]
                if not X.leading_minors_positive(Af):
                    ctx.count("gen.rejected_not_spd"); continue
                cond = X.cond_inf(Af)
                if cond is None or cond > 10 ** 10:
                    ctx.count("gen.rejected_cond"); continue
                made += 1
                r0 = {"op": "decomp", "n": n, "a": gen.flat_bits(A)}
                if made % 3 == 0:
                    # the stability test with a generous tolerance (the residual of a cond <= 1e10 matrix is far below 1e-3) must not
                    # withhold the result; print_debug_info must not matter
                    r0["tol"] = f2b(1e-3 if cond < 10 ** 8 else 1.0)
                    r0["debug"] = bool(made % 2)
                reqs.append(r0)
                infos.append((n, fam, Af, cond))
    # matrices whose decomposition is EXACT in binary floating point (identity, diagonals of powers of four, small integer B^T B with a
    # unit triangular B): the inversion error is exactly 0, so every tolerance >= 0 - tolerance 0 included - lets the result through
    for n in range(1, 9):
        for kind in ("identity", "pow4", "unit_triangular"):
            if kind == "identity":
                A = [[1.0 if i == j else 0.0 for j in range(n)] for i in range(n)]
            elif kind == "pow4":
                A = [[4.0 ** rng.randint(-6, 6) if i == j else 0.0 for j in range(n)] for i in range(n)]
            else:
                B = [[(float(rng.randint(-2, 2)) if j < i else (1.0 if i == j else 0.0)) for j in range(n)] for i in range(n)]
                A = [[sum(B[i][k] * B[j][k] for k in range(n)) for j in range(n)] for i in range(n)]
            Af = [[Fraction(x) for x in r] for r in A]
            cond = X.cond_inf(Af)
            if cond is None or cond > 10 ** 10:
                continue
            reqs.append({"op": "decomp", "n": n, "a": gen.flat_bits(A), "tol": f2b(0.0), "debug": False})
            infos.append((n, "exact_" + kind + "_tol0", Af, cond))
    # well-conditioned matrices at a small overall scale: the determinant is a SUBNORMAL number (non-zero, so no ZeroDet), every other output
    # an ordinary one
    import math
    for n in range(2, 7):       # (n = 1: the entry itself would be subnormal and its inverse beyond f64)
        for _ in range(2 if ctx.quick else 10):
            A0 = gen.spd_random(rng, n, ridge=1.0)
            d0 = X.det([[Fraction(x) for x in r] for r in A0])
            if d0 <= 0:
                continue
            k = round((-1050 - math.log2(float(d0))) / n)
            A = gen.symmetrize([[A0[i][j] * 2.0 ** k for j in range(n)] for i in range(n)])
            Af = [[Fraction(x) for x in r] for r in A]
            dd = X.det(Af)
            if not (Fraction(1, 2 ** 1068) < dd < Fraction(1, 2 ** 1026)) or not X.leading_minors_positive(Af):
                continue
            cond = X.cond_inf(Af)
            if cond is None or cond > 10 ** 8:
                continue
            reqs.append({"op": "decomp", "n": n, "a": gen.flat_bits(A)})
            infos.append((n, "subnormal_det", Af, cond))
    impl = run_harness(reqs)
    model = run_driver(reqs)
    for r, a, m, (n, fam, Af, cond) in zip(reqs, impl, model, infos):
        ctx.case(r["a"], nontrivial=n >= 3, sample={"n": n, "family": fam, "cond": float(cond), "matrix": [b2f(b) for b in r["a"]]} if n == 3 else None)
        ctx.count(f"n={n}"); ctx.count(f"family.{fam}")
        ctx.count("cond.decade.%d" % min(10, len(str(int(cond))) - 1))
        if "error" in a or "error" in m:
            ctx.mismatch("decompose model vs decompose_for_tropical", r, a, m, "machinery error"); continue
        if a.get("status") != "ok":
            ctx.violation(f"decompose_for_tropical returned {a.get('status')} for an SPD matrix with cond {float(cond):.2e}", r, observed=a)
            continue
        if m.get("status") != a.get("status"):
            ctx.mismatch("decompose model vs decompose_for_tropical", r, a, m, "status"); continue
        # correspondence: expected bit-equal; tolerated up to the property's own tolerance
        rel = float(tol_for(n, cond))
        for k in ("det", "inv", "qt", "qti"):
            va, vm = ([a[k]], [m[k]]) if k == "det" else (a[k], m[k])
            scale = max(abs(b2f(b)) for b in va)
            d = cmp_bits_list(ctx, va, vm, ulps=4, absol=rel * scale)
            if d:
                ctx.mismatch("decompose model vs decompose_for_tropical", r, a, m, f"{k}: {d}"); break
        check_outputs(ctx, r, n, Af, cond, a)
    through_samples(ctx)
    # the routine is generic: with a user scalar type (double-double: hi + lo pairs) the same matrices give the same decomposition - the high
    # parts are fed to the same exact-rational oracle with the f64 tolerance
    sel = [(r, inf) for r, inf in zip(reqs, infos) if inf[1] != "subnormal_det"][:: (9 if ctx.quick else 3)]
    dreqs = [{"op": "decomp_dd", "n": r["n"], "a": r["a"]} for r, _ in sel]
    for rq, d, (_, (n, fam, Af, cond)) in zip(dreqs, run_harness(dreqs), sel):
        ctx.count("generic_scalar_decomposition")
        if d.get("status") == "panic" or "error" in d:
            ctx.violation("decompose_for_tropical panics / fails with a double-double scalar on an SPD matrix", rq, observed=d); continue
        if d.get("status") != "ok":
            ctx.violation(f"decompose_for_tropical with a double-double scalar returns {d.get('status')} for an SPD matrix with cond {float(cond):.2e}", rq, observed=d); continue
        hi = {"det": d["det"][0], "inv": [p[0] for p in d["inv"]], "qt": [p[0] for p in d["qt"]], "qti": [p[0] for p in d["qti"]]}
        check_outputs(ctx, dict(rq, scalar="double-double (high parts judged)"), n, Af, cond, hi)
