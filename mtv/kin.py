"""Loop signatures (cycle bases), momentum routing and kinematics for connected multigraphs."""
from fractions import Fraction
from . import oracle


def spanning_tree(rng, edges):
    order = list(range(len(edges))); rng.shuffle(order)
    uf = oracle.UF(); tree = []
    for e in order:
        a, b = edges[e]
        if a != b and uf.find(a) != uf.find(b):
            uf.union(a, b); tree.append(e)
    return tree


def tree_path(edges, tree, a, b):
    """edges of the tree path a -> b with direction signs: list of (edge, +1 if traversed along its orientation)"""
    adj = {}
    for e in tree:
        u, v = edges[e]
        adj.setdefault(u, []).append((v, e, +1)); adj.setdefault(v, []).append((u, e, -1))
    prev = {a: None}; stack = [a]
    while stack:
        x = stack.pop()
        for y, e, sg in adj.get(x, []):
            if y not in prev:
                prev[y] = (x, e, sg); stack.append(y)
    path = []
    x = b
    while prev[x] is not None:
        px, e, sg = prev[x]; path.append((e, sg)); x = px
    return list(reversed(path))


def fundamental_signature(rng, edges):
    """signature matrix S (E x L) of the fundamental cycles of a random spanning tree; (S, tree)"""
    tree = spanning_tree(rng, edges)
    chords = [e for e in range(len(edges)) if e not in tree]
    S = [[0] * len(chords) for _ in edges]
    for l, c in enumerate(chords):
        a, b = edges[c]
        S[c][l] = 1
        if a != b:
            for e, sg in tree_path(edges, tree, b, a):      # close the cycle b -> a through the tree
                S[e][l] = sg
    return S, tree


def unimodular(rng, L, steps=None, big=False):
    """random integer matrix with determinant +-1 (product of elementary column operations)"""
    P = [[1 if i == j else 0 for j in range(L)] for i in range(L)]
    if L == 1:
        if rng.random() < 0.5:
            P[0][0] = -1
        return P
    for _ in range(steps if steps is not None else rng.randint(0, 2 * L)):
        op = rng.random()
        i, j = rng.sample(range(L), 2)
        if op < 0.6:
            k = rng.choice([-1, 1, 1, -1, 2, -2] if big else [-1, 1])
            for r in range(L):
                P[r][i] += k * P[r][j]
        elif op < 0.8:
            for r in range(L):
                P[r][i], P[r][j] = P[r][j], P[r][i]
        else:
            for r in range(L):
                P[r][i] = -P[r][i]
    return P


def mat_mul_int(A, B):
    return [[sum(A[i][k] * B[k][j] for k in range(len(B))) for j in range(len(B[0]))] for i in range(len(A))]


def route_externals(edges, tree, ext_mom, D):
    """shifts p_e (Fractions) on the tree edges such that momentum is conserved at every vertex for incoming external
    momenta ext_mom[v] (sum zero), chords carrying no external momentum"""
    n = len(edges)
    p = [[Fraction(0)] * D for _ in range(n)]
    verts = set(v for e in edges for v in e)
    inflow = {v: list(ext_mom.get(v, [Fraction(0)] * D)) for v in verts}
    tset = list(tree)
    deg = {v: 0 for v in verts}
    for e in tset:
        a, b = edges[e]; deg[a] += 1; deg[b] += 1
    remaining = set(tset)
    leaves = [v for v in verts if deg[v] == 1]
    while remaining:
        v = leaves.pop()
        if deg[v] != 1:
            continue
        e = next(e for e in remaining if v in edges[e])
        a, b = edges[e]
        other = b if a == v else a
        # momentum leaving v through e equals the momentum injected at v
        flow = inflow[v]
        if a == v:      # edge oriented v -> other carries +flow
            p[e] = list(flow)
        else:           # edge oriented other -> v carries -flow
            p[e] = [-x for x in flow]
        inflow[other] = [x + y for x, y in zip(inflow[other], flow)]
        inflow[v] = [Fraction(0)] * D
        remaining.discard(e); deg[v] -= 1; deg[other] -= 1
        if deg[other] == 1:
            leaves.append(other)
    return p


def check_conservation(edges, q, ext_mom, D):
    """for edge momenta q (per edge vector) verify conservation at each vertex"""
    verts = set(v for e in edges for v in e)
    for v in verts:
        tot = list(ext_mom.get(v, [Fraction(0)] * D))
        for e, (a, b) in enumerate(edges):
            if a == v:
                tot = [t - x for t, x in zip(tot, q[e])]
            if b == v:
                tot = [t + x for t, x in zip(tot, q[e])]
        if any(t != 0 for t in tot):
            return False
    return True


def symanzik(edges, x, ext_mom, masses, D):
    """Exact Symanzik polynomials of a connected multigraph at the point x (Fractions), Euclidean signature.
    U = sum_T prod_{e not in T} x_e,  F = sum_{2-forests} (momentum through the cut)^2 prod_{e not in forest} x_e + U sum_e m_e^2 x_e.
    Returns dict(U, F, Umon=[values], Fmon={exponents: (coeff, value)}, ntrees)."""
    from itertools import combinations
    n = len(edges)
    verts = sorted(set(v for e in edges for v in e))
    trees = []
    for T in combinations(range(n), len(verts) - 1):
        uf = oracle.UF(); ok = True
        for e in T:
            a, b = edges[e]
            if uf.find(a) == uf.find(b):
                ok = False; break
            uf.union(a, b)
        if ok:
            trees.append(set(T))
    def mono(exps):
        v = Fraction(1)
        for e, k in enumerate(exps):
            if k:
                v *= x[e] ** k
        return v
    Umon, Fmon = [], {}
    U = Fraction(0)
    for T in trees:
        exps = tuple(0 if e in T else 1 for e in range(n))
        val = mono(exps); Umon.append(val); U += val
        for e in range(n):
            m2 = masses[e] * masses[e]
            if m2 != 0:
                ex2 = tuple(k + (1 if i == e else 0) for i, k in enumerate(exps))
                c, _ = Fmon.get(ex2, (Fraction(0), None))
                Fmon[ex2] = (c + m2, mono(ex2))
    k = len(verts) - 2
    if k >= 0:
        for Fo in combinations(range(n), k):
            uf = oracle.UF(); ok = True
            for e in Fo:
                a, b = edges[e]
                if uf.find(a) == uf.find(b):
                    ok = False; break
                uf.union(a, b)
            if not ok or len(set(uf.find(v) for v in verts)) != 2:
                continue
            r0 = uf.find(verts[0])
            P = [Fraction(0)] * D
            for v in verts:
                if uf.find(v) == r0 and v in ext_mom:
                    P = [a + b for a, b in zip(P, ext_mom[v])]
            s2 = sum((c * c for c in P), Fraction(0))
            if s2 != 0:
                exps = tuple(0 if e in Fo else 1 for e in range(n))
                c, _ = Fmon.get(exps, (Fraction(0), None))
                Fmon[exps] = (c + s2, mono(exps))
    F = sum((c * v for c, v in Fmon.values()), Fraction(0))
    return dict(U=U, F=F, Umon=Umon, Fmon=Fmon, ntrees=len(trees))
