"""Graph case generation shared by C03-C07 etc.: catalogue + random multigraphs, weights steered with the exact
oracle so that a stated fraction is accepted / rejected, near-threshold variants."""
from fractions import Fraction
from . import gen, oracle
from .core import f2b, b2f


def make_case(rng, edges, D, style=None, mass_mode=None, ext_mode=None, want=None, tries=40):
    """returns dict(edges, weights, massive, ext, D, accepted(bool exact), table, dod)"""
    n = len(edges)
    style = style or rng.choice(["twelfths", "unit", "random"])
    mass_mode = mass_mode or rng.choice(["none", "some", "all"])
    verts = sorted(set(v for e in edges for v in e))
    best = None
    for _ in range(tries):
        massive = [mass_mode == "all" or (mass_mode == "some" and rng.random() < 0.5) for _ in range(n)]
        em = ext_mode or rng.choice(["all", "subset", "two", "none", "untouched"])
        if em == "all":
            ext = list(verts)
        elif em == "subset":
            ext = [v for v in verts if rng.random() < 0.5]
        elif em == "two":
            ext = rng.sample(verts, min(2, len(verts)))
        elif em == "dup":
            ext = list(verts) + [rng.choice(verts)]
            rng.shuffle(ext)
        elif em == "none":
            ext = []
        elif em == "edge":
            # two-point function: the externals are the end points of one propagator; massless, or only that propagator massive
            cand = [i for i, (a, b) in enumerate(edges) if a != b]
            if not cand:
                ext = list(verts)
            else:
                i = rng.choice(cand)
                ext = list(edges[i])
                massive = [False] * n
                if rng.random() < 0.5:
                    massive[i] = True
        else:
            unused = [v for v in range(256) if v not in verts]
            ext = rng.sample(verts, min(1, len(verts))) + [rng.choice(unused)]
        if ext and rng.random() < 0.12:
            # one entry per external LEG: a vertex carrying two legs is listed twice (the set of external vertices is what matters)
            ext = ext + [rng.choice(ext)]
            rng.shuffle(ext)
        weights = [gen.weight_choice(rng, style) for _ in range(n)]
        if rng.random() < 0.5:
            # scale weights so that the overall dod is a small positive number (raises acceptance)
            L = oracle.subset_info(edges, massive, ext, (1 << n) - 1)[0]
            tot = sum(weights)
            target = L * D / 2.0 + rng.uniform(0.1, 1.5)
            weights = [w * target / tot for w in weights]
        dod, Lf, table = oracle.table_oracle(edges, weights, massive, ext, D)
        acc = not oracle.divergent_subsets(table)
        case = dict(edges=edges, weights=weights, massive=massive, ext=ext, D=D, accepted=acc, table=table, dod=dod,
                    loops=Lf)
        if want is None or want == acc:
            return case
        best = case
    return best


def near_threshold(rng, case, delta):
    """shift one weight so that one proper subset's exact omega becomes ~delta (sign included)"""
    n = len(case["edges"])
    cands = [m for m in range(1, (1 << n) - 1)]
    if not cands:
        return None
    m = rng.choice(cands)
    om = case["table"][m][2]
    es = [e for e in range(n) if m >> e & 1]
    e = rng.choice(es)
    neww = float(Fraction(case["weights"][e]) - om + Fraction(delta))
    if not (neww > 0):
        return None
    weights = list(case["weights"]); weights[e] = neww
    dod, Lf, table = oracle.table_oracle(case["edges"], weights, case["massive"], case["ext"], case["D"])
    return dict(case, weights=weights, table=table, dod=dod, accepted=not oracle.divergent_subsets(table), tuned=(m, delta))


def reweight(rng, case, tries=40):
    """same topology, mass pattern and externals; other weights and possibly another D (accepted variant if found)"""
    n = len(case["edges"])
    best = None
    for _ in range(tries):
        D = rng.choice([case["D"], rng.randint(1, 6)])
        L = case["loops"]
        weights = [gen.weight_choice(rng, rng.choice(["twelfths", "random"])) for _ in range(n)]
        tot = sum(weights); target = L * D / 2.0 + rng.uniform(0.1, 1.5)
        weights = [w * target / tot for w in weights]
        dod, Lf, table = oracle.table_oracle(case["edges"], weights, case["massive"], case["ext"], D)
        c = dict(case, weights=weights, D=D, table=table, dod=dod, accepted=not oracle.divergent_subsets(table))
        if c["accepted"]:
            return c
        best = c
    return best


def remass(rng, case, tries=20):
    """same edges, weights, externals and D; another mass pattern"""
    n = len(case["edges"])
    for _ in range(tries):
        massive = [rng.random() < 0.5 for _ in range(n)]
        if massive != list(case["massive"]):
            dod, Lf, table = oracle.table_oracle(case["edges"], case["weights"], massive, case["ext"], case["D"])
            return dict(case, massive=massive, table=table, dod=dod, accepted=not oracle.divergent_subsets(table))
    return None


def connected_subset(edges, mask):
    ids = [e for e in range(len(edges)) if mask >> e & 1]
    uf = oracle.UF()
    for e in ids:
        uf.union(edges[e][0], edges[e][1])
    return len(set(uf.find(edges[e][0]) for e in ids)) <= 1


def classify_rejection(case):
    """structure of the divergent proper subsets of a rejected case (for the input-distribution histogram and for steering)"""
    bad = oracle.divergent_subsets(case["table"])
    if not bad:
        return "accepted"
    tags = []
    if all(not connected_subset(case["edges"], m) for m in bad):
        tags.append("only_disconnected")
    if all(case["table"][m][0] == 0 for m in bad):
        tags.append("only_forests")
    if all(case["table"][m][1] for m in bad):
        tags.append("only_spanning")
    if len(bad) == 1:
        tags.append("single")
    return "+".join(tags) if tags else "generic"


def structured_rejections(rng, count, max_e=6, budget=4000):
    """rejected cases whose divergent subsets are all disconnected / all forests / all spanning / a single subset:
    a check applied to the wrong family of subsets accepts exactly these"""
    want = {"only_disconnected": count, "only_forests": count, "only_spanning": count, "single": count}
    out = []
    names = [k for k, v in gen.CATALOGUE.items() if len(v) <= max_e]
    for _ in range(budget):
        if not any(v > 0 for v in want.values()):
            break
        edges = list(gen.CATALOGUE[rng.choice(names)]) if rng.random() < 0.6 else gen.random_connected(rng, max_e)
        edges, _, _ = gen.relabel(rng, edges)
        c = make_case(rng, edges, rng.randint(1, 6), tries=1, style=rng.choice(["unit", "twelfths"]),
                      mass_mode=rng.choice(["some", "none", "some"]), ext_mode=rng.choice(["two", "subset", "all"]))
        if c["accepted"]:
            continue
        tag = classify_rejection(c)
        for t in tag.split("+"):
            if want.get(t, 0) > 0:
                want[t] -= 1
                c["name"] = "structured:" + tag
                out.append(c)
                break
    return out


def case_stream(rng, count, max_e=6, accepted_fraction=0.7, connected_only=False):
    """yield cases: catalogue and random graphs, relabelled, all D, with the stated accepted fraction"""
    names = list(gen.CATALOGUE)
    out = []
    while len(out) < count:
        r = rng.random()
        if r < 0.45:
            name = rng.choice(names)
            edges = list(gen.CATALOGUE[name])
            if len(edges) > max_e:
                continue
        elif connected_only or r < 0.75:
            name = "random_connected"; edges = gen.random_connected(rng, max_e)
        else:
            name = "random"; edges = gen.random_multigraph(rng, max_e)
        if connected_only and name == "two_bubbles":
            continue
        edges, _, _ = gen.relabel(rng, edges)
        D = rng.randint(1, 6)
        want = rng.random() < accepted_fraction
        c = make_case(rng, edges, D, want=want)
        c["name"] = name
        out.append(c)
    return out


def request(case):
    return gen.graph_request(case["edges"], case["weights"], case["massive"], case["ext"], case["D"])


def nontrivial_graph(case):
    es = case["edges"]
    n = len(es)
    verts = set(v for e in es for v in e)
    return n >= 2 and (len(set(map(frozenset, es))) < n or any(a == b for a, b in es)
                       or len(oracle.subset_info(es, case["massive"], case["ext"], (1 << n) - 1)[1]) >= 2
                       or 0 < sum(case["massive"]) < n or set(case["ext"]) != verts)
