"""Source audit for C12: the float literals of inverse_gamma_lr_impl in /repo/src/gamma.rs vs the literals the Lean model
(Model/Gamma.lean, generated from tools/gen_gamma_model.py) was written with."""
import os, re


def source_constants():
    src = open("/repo/src/gamma.rs").read()
    # the whole non-test part of the file: constants may live in `const` items outside the function body
    cut = src.find("#[cfg(test)]")
    body = src if cut < 0 else src[:cut]
    body = re.sub(r"//[^\n]*", "", body)
    toks = re.findall(r"(?<![\w.])(\d[\d_]*(?:\.[\d_]*)?(?:[eE][-+]?\d+)?(?:f64)?)", body)
    lits = []
    for t in toks:
        core = t.replace("_", "")
        isf = core.endswith("f64")
        core = core[:-3] if isf else core
        if "." in core or "e" in core.lower() or isf:
            lits.append(float(core))
    here = os.path.dirname(os.path.dirname(os.path.abspath(__file__)))
    lean = open(os.path.join(here, "lean", "Momtrop", "Model", "Gamma.lean")).read()
    model = lean[lean.index("def tailExpansion"):lean.index("def invGammaLr")]
    mlits = [abs(float(x)) for x in re.findall(r"/- (-?[\d.eE+-]+) -/", model)]
    return sorted(set(lits)), sorted(set(mlits))


def compare():
    a_src, a_mod = source_constants()
    missing = [x for x in a_src if x not in a_mod and x != 0.0]
    extra = [x for x in a_mod if x not in a_src and x not in (0.0, 2.220446049250313e-16)]   # 0.0 and f64::EPSILON are spelled differently in the source
    return len(a_src), missing, extra
