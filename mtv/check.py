"""`/verif/check <ID> [--tier quick|thorough] [--seed N] [--replay FILE]` — decide one property.

Steps: (a) lake build of the property's theorem module + axiom/source audit, (b) rebuild the harness
against /repo's working tree, (c) correspondence model<->implementation, (d) property oracle on the
implementation. Exit 0 = held on everything explored; exit 1 + `VIOLATION property=<id> replay=<path>`.
"""
import argparse, hashlib, importlib, json, os, random, sys, time, traceback
from . import build
from .core import VERIF, run_harness, run_driver

TRUSTED_BASE = [
    "Lean 4.33.0 kernel; axioms propext, Classical.choice, Quot.sound only (audited with #print axioms on every property theorem)",
    "hand-written Lean model tied to /repo by the correspondence check (differential run of the model's executable definitions at Float against the real code)",
    "instance Scalar Float = Lean runtime IEEE binary64 + system libm (agreement with Rust f64 measured by the correspondence, not proved)",
    "external crates modelled, not verified: statrs gamma functions, ahash, serde derive, smallvec, itertools, rand",
]


class Ctx:
    def __init__(self, pid, tier, seed):
        self.pid, self.tier, self.seed = pid, tier, seed
        self.rng = random.Random(seed * 1000003 + int(pid[1:]))
        self.evaluations = 0
        self.distinct = set()
        self.nontrivial = set()
        self.samples = []
        self.hist = {}
        self.mismatches = []      # correspondence disagreements
        self.violations = []      # property failures of the implementation (oracle)
        self.known_hits = []
        self.notes = []
        self.float_cmp = {"bit_equal": 0, "within_tol": 0}
        self.extra = {}

    @property
    def quick(self):
        return self.tier == "quick"

    def count(self, key, n=1):
        self.hist[key] = self.hist.get(key, 0) + n

    def case(self, canonical, nontrivial=False, sample=None):
        """register one evaluated case; `canonical` identifies the input"""
        self.evaluations += 1
        h = hashlib.sha1(json.dumps(canonical, sort_keys=True, default=str).encode()).hexdigest()[:16]
        self.distinct.add(h)
        if nontrivial:
            self.nontrivial.add(h)
        if sample is not None and len(self.samples) < 6:
            self.samples.append(sample)

    def mismatch(self, what, req, impl, model, detail=""):
        if len(self.mismatches) < 50:
            self.mismatches.append({"correspondence": what, "request": req, "impl": impl, "model": model,
                                    "detail": detail})
        self.count("corr_mismatch")

    def violation(self, what, req, expected=None, observed=None, key=None):
        """a property failure shown on the real code; `key` identifies it for the known-findings file"""
        v = {"what": what, "request": req, "expected": expected, "observed": observed, "key": key}
        if len(self.violations) < 50:
            self.violations.append(v)
        self.count("oracle_violation")


def load_known(pid):
    p = os.path.join(VERIF, "known_findings.json")
    if not os.path.exists(p):
        return []
    data = json.load(open(p))
    return [e for e in data.get("open", []) if e.get("property") == pid]


def write_evidence(ctx, prop, lean_info, wall, nviol):
    cov = {
        "obligations": len(prop.THEOREMS),
        "discharged": lean_info["discharged"],
        "checker_cmd": f"cd /verif/lean && lake build {prop.MODULE} && lake env lean ../work/Audit_{ctx.pid}.lean  (#print axioms for each theorem)",
        "trusted_base": TRUSTED_BASE + getattr(prop, "TRUSTED_EXTRA", []),
        "theorems": lean_info["axioms"],
        "evaluations": ctx.evaluations,
        "distinct_nontrivial": len(ctx.nontrivial),
        "distinct": len(ctx.distinct),
        "rule": getattr(prop, "RULE", ""),
        "samples": ctx.samples if ctx.samples else [{"note": "no executable cases"}],
        "correspondence_mismatches": ctx.hist.get("corr_mismatch", 0),
        "oracle_violations": ctx.hist.get("oracle_violation", 0),
        "known_findings_hit": ctx.known_hits,
        "float_comparisons": ctx.float_cmp,
        "histogram": ctx.hist,
        "lean_build_s": lean_info.get("build_s"),
        "harness_build_s": lean_info.get("harness_s"),
        "notes": ctx.notes,
    }
    cov.update({k: v for k, v in ctx.extra.items() if not k.startswith("_")})
    ev = {
        "property_id": ctx.pid, "tier": ctx.tier, "seed": ctx.seed, "level": "proof",
        "coverage": cov,
        "assumptions": getattr(prop, "ASSUMPTIONS", []),
        "wall_s": round(wall, 2), "violations": nviol,
    }
    os.makedirs(os.path.join(VERIF, "evidence"), exist_ok=True)
    with open(os.path.join(VERIF, "evidence", f"{ctx.pid}.json"), "w") as f:
        json.dump(ev, f, indent=1, default=str)


def main(argv=None):
    ap = argparse.ArgumentParser()
    ap.add_argument("pid")
    ap.add_argument("--tier", default=os.environ.get("VERIF_TIER", "quick"), choices=["quick", "thorough"])
    ap.add_argument("--seed", type=int, default=int(os.environ.get("VERIF_SEED", "20260926")))
    ap.add_argument("--replay")
    ap.add_argument("--skip-lean", action="store_true", help="development only")
    a = ap.parse_args(argv)
    t0 = time.time()
    pid = a.pid.upper()
    prop = importlib.import_module(f"mtv.props.{pid.lower()}")
    ctx = Ctx(pid, a.tier, a.seed)

    if a.replay:
        ok, out, _ = build.build_harness()
        if not ok:
            print(out); return 2
        rep = json.load(open(a.replay))
        return prop.replay(ctx, rep) if hasattr(prop, "replay") else generic_replay(rep)

    # (a) proof obligations (a property may first regenerate model parts from the source: translator)
    lean_info = {"discharged": 0, "axioms": {}, "problems": []}
    if hasattr(prop, "prepare"):
        prop.prepare(ctx)
    if not a.skip_lean:
        ok, out, secs = build.lake_build([prop.MODULE, "driver"])
        lean_info["build_s"] = round(secs, 1)
        if not ok:
            lean_info["problems"].append("lake build failed: " + out[-1500:])
        else:
            found, problems = build.axiom_audit(pid, prop.MODULE, prop.THEOREMS)
            lean_info["axioms"] = found
            lean_info["problems"] += problems
            hits = build.source_audit()
            if hits:
                lean_info["problems"].append("forbidden construct in Lean sources: " + "; ".join(hits[:10]))
            lean_info["discharged"] = len([t for t in prop.THEOREMS if t in found]) if not problems and not hits else \
                len([t for t in prop.THEOREMS if t in found and set(found[t]) <= build.ALLOWED_AXIOMS])
            if a.tier == "thorough" and not lean_info["problems"]:
                okc, outc = build.leanchecker([prop.MODULE])
                ctx.notes.append("leanchecker " + ("ok" if okc else "FAILED: " + outc[-500:]))
                if not okc:
                    lean_info["problems"].append("leanchecker rejected " + prop.MODULE)
    else:
        lean_info["discharged"] = len(prop.THEOREMS)

    # (b) harness against the current working tree
    ok, out, secs = build.build_harness()
    lean_info["harness_s"] = round(secs, 1)
    if not ok:
        # the crate as it stands cannot be driven by the executor (a struct, a signature or a hook it relies on changed): the tie between the
        # model and the code is broken - nothing is shown for this tree
        print("harness/implementation does not build:\n" + out[-3000:])
        os.makedirs(os.path.join(VERIF, "work", "replay"), exist_ok=True)
        rpath = os.path.join(VERIF, "work", "replay", f"{pid}_{a.tier}_{a.seed}.json")
        json.dump({"property": pid, "kind": "proof obligation or correspondence no longer checks",
                   "broken_obligations": ["correspondence: the request executor (harness, features log + verif-hooks) no longer builds against /repo"],
                   "theorems": prop.THEOREMS, "build_output": out[-3000:]}, open(rpath, "w"), indent=1, default=str)
        print(f"VIOLATION property={pid} replay={rpath} no-failing-input-found")
        ctx.mismatch("the request executor does not build against the working tree", None, out[-800:], None)
        write_evidence(ctx, prop, lean_info, time.time() - t0, 1)
        return 1

    # (c)+(d)
    try:
        from . import samples as _samples
        _samples.purity_audit(ctx)      # global state / interior mutability / unsafe in /repo/src: the pure model no longer describes the code
        prop.run(ctx)
    except Exception:
        traceback.print_exc()
        ctx.mismatch("check machinery raised an exception", None, None, None, traceback.format_exc()[-1500:])
    # answers that are machinery failures (a request the executor could not even pose to the library: table no longer deserialises, unknown
    # field, process died): the correspondence did not run for them - silence here would be a hole, not a pass
    from . import core as _core
    if _core.MACHINERY_ERRORS:
        what, rq, msg = _core.MACHINERY_ERRORS[0]
        ctx.mismatch(f"{len(_core.MACHINERY_ERRORS)} requests could not be executed by the {what} (first: {msg[:200]})",
                     rq if isinstance(rq, dict) and len(str(rq)) < 4000 else {"op": (rq or {}).get("op") if isinstance(rq, dict) else None}, msg, None)

    # decision
    known = load_known(pid)
    new_viol = []
    for v in ctx.violations:
        hit = next((k for k in known if k.get("key") == v.get("key") and v.get("key") is not None), None)
        if hit:
            if hit["key"] not in ctx.known_hits:
                ctx.known_hits.append(hit["key"])
                print(f"KNOWN-FINDING: property={pid} {hit.get('what', hit['key'])}")
        else:
            new_viol.append(v)
    rc = 0
    os.makedirs(os.path.join(VERIF, "work", "replay"), exist_ok=True)
    rpath = os.path.join(VERIF, "work", "replay", f"{pid}_{a.tier}_{a.seed}.json")
    if new_viol:
        json.dump({"property": pid, "kind": "property violation on the implementation", "violations": new_viol,
                   "correspondence_mismatches": ctx.mismatches[:10]}, open(rpath, "w"), indent=1, default=str)
        print(f"VIOLATION property={pid} replay={rpath}")
        rc = 1
    elif ctx.mismatches or lean_info["problems"]:
        json.dump({"property": pid, "kind": "proof obligation or correspondence no longer checks",
                   "broken_obligations": lean_info["problems"],
                   "theorems": prop.THEOREMS,
                   "correspondence_mismatches": ctx.mismatches[:20]}, open(rpath, "w"), indent=1, default=str)
        print(f"VIOLATION property={pid} replay={rpath} no-failing-input-found")
        rc = 1
    write_evidence(ctx, prop, lean_info, time.time() - t0, len(new_viol) + (1 if rc and not new_viol else 0))
    print(f"{pid} {a.tier}: theorems {lean_info['discharged']}/{len(prop.THEOREMS)}, evaluations {ctx.evaluations}, "
          f"distinct non-trivial {len(ctx.nontrivial)}, correspondence mismatches {ctx.hist.get('corr_mismatch', 0)}, "
          f"oracle violations {ctx.hist.get('oracle_violation', 0)}, {time.time() - t0:.1f}s -> rc={rc}")
    return rc


def generic_replay(rep):
    reqs = []
    for v in rep.get("violations", []):
        if v.get("request"):
            reqs.append(v["request"])
    for m in rep.get("correspondence_mismatches", []):
        if m.get("request"):
            reqs.append(m["request"])
    from . import gen
    for r in reqs:
        if isinstance(r.get("table"), str) and isinstance(r.get("graph"), dict):
            # replay files carry the graph instead of its 2^E-entry table: rebuild the table with the implementation
            g = r["graph"]
            b = run_harness([gen.graph_request(g["edges"], g["weights"], g["massive"], g["ext"], g["D"])])[0]
            r = dict(r, table=b.get("table"))
            r.pop("graph", None)
            print("table rebuilt from the graph:", b.get("status"))
        print("request:", json.dumps(r)[:2000])
        print("  impl :", json.dumps(run_harness([r])[0])[:2000])
        print("  model:", json.dumps(run_driver([r])[0])[:2000])
    return 0


if __name__ == "__main__":
    sys.exit(main())
