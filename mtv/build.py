"""Building and auditing: Lean theorem modules (lake), the axiom audit, and the Rust harness."""
import os, re, subprocess, time, json
from .core import VERIF, LEAN_DIR, HARNESS_DIR

ALLOWED_AXIOMS = {"propext", "Classical.choice", "Quot.sound"}
FORBIDDEN = re.compile(r"\b(sorry|admit|native_decide|bv_decide|implemented_by|unsafe)\b|^\s*axiom\s|maxHeartbeats\s+0\b",
                       re.M)


def _strip_comments(src: str) -> str:
    # remove /- ... -/ (nested) and -- comments
    out, i, depth = [], 0, 0
    while i < len(src):
        if src.startswith("/-", i):
            depth += 1; i += 2; continue
        if src.startswith("-/", i) and depth > 0:
            depth -= 1; i += 2; continue
        if depth == 0:
            if src.startswith("--", i):
                j = src.find("\n", i)
                i = len(src) if j < 0 else j
                continue
            out.append(src[i])
        i += 1
    return "".join(out)


def source_audit():
    """No sorry/admit/axiom/native_decide/... outside comments anywhere in the Lean project."""
    hits = []
    for root, _, files in os.walk(LEAN_DIR):
        if ".lake" in root:
            continue
        for f in files:
            if f.endswith(".lean"):
                p = os.path.join(root, f)
                code = _strip_comments(open(p).read())
                for m in FORBIDDEN.finditer(code):
                    hits.append(f"{os.path.relpath(p, LEAN_DIR)}: {m.group(0).strip()}")
    return hits


def lake_build(targets, timeout=3600):
    t0 = time.time()
    p = subprocess.run(["lake", "build"] + list(targets), cwd=LEAN_DIR, stdout=subprocess.PIPE,
                       stderr=subprocess.STDOUT, timeout=timeout)
    return p.returncode == 0, p.stdout.decode()[-4000:], time.time() - t0


def axiom_audit(prop_id, module, theorems, timeout=1800):
    """`#print axioms` for every property theorem; returns {theorem: [axioms]} and a list of problems."""
    os.makedirs(os.path.join(VERIF, "work"), exist_ok=True)
    path = os.path.join(VERIF, "work", f"Audit_{prop_id}.lean")
    with open(path, "w") as f:
        f.write(f"import {module}\n")
        for t in theorems:
            f.write(f"#print axioms {t}\n")
    p = subprocess.run(["lake", "env", "lean", path], cwd=LEAN_DIR, stdout=subprocess.PIPE,
                       stderr=subprocess.STDOUT, timeout=timeout)
    out = p.stdout.decode()
    found, problems = {}, []
    if p.returncode != 0:
        problems.append("axiom audit failed to elaborate: " + out[-1500:])
    # output: "'Name' depends on axioms: [a, b]" or "'Name' does not depend on any axioms"
    for m in re.finditer(r"'([^']+)' depends on axioms: \[([^\]]*)\]", out, re.S):
        found[m.group(1)] = [a.strip() for a in m.group(2).replace("\n", " ").split(",") if a.strip()]
    for m in re.finditer(r"'([^']+)' does not depend on any axioms", out):
        found[m.group(1)] = []
    for t in theorems:
        if t not in found:
            problems.append(f"theorem {t} not found by the audit")
        else:
            bad = [a for a in found[t] if a not in ALLOWED_AXIOMS]
            if bad:
                problems.append(f"theorem {t} depends on non-standard axioms {bad}")
    return found, problems


def leanchecker(modules, timeout=3600):
    p = subprocess.run(["lake", "env", "leanchecker"] + list(modules), cwd=LEAN_DIR, stdout=subprocess.PIPE,
                       stderr=subprocess.STDOUT, timeout=timeout)
    return p.returncode == 0, p.stdout.decode()[-2000:]


def build_harness(timeout=3600):
    """Rebuild the harness against /repo's current working tree."""
    t0 = time.time()
    lock_src, lock_dst = "/repo/Cargo.lock", os.path.join(HARNESS_DIR, "Cargo.lock")
    if not os.path.exists(lock_dst) and os.path.exists(lock_src):
        import shutil; shutil.copy(lock_src, lock_dst)
    env = dict(os.environ, CARGO_NET_OFFLINE="true")
    p = subprocess.run(["cargo", "build", "--release", "--offline"], cwd=HARNESS_DIR, stdout=subprocess.PIPE,
                       stderr=subprocess.STDOUT, timeout=timeout, env=env)
    return p.returncode == 0, p.stdout.decode()[-4000:], time.time() - t0
