"""Regenerate /verif/MANIFEST.json from the table below and validate it (and the evidence files)."""
import json, os, sys
import jsonschema
from .core import VERIF

from . import claims
PROPS = claims.PROPS

ALL = [f"C{i:02d}" for i in range(1, 21)]


def build():
    checks = []
    for pid in ALL:
        if pid not in PROPS:
            continue
        p = PROPS[pid]
        checks.append({
            "property_id": pid,
            "quick_cmd": f"./check {pid} --tier quick",
            "thorough_cmd": f"./check {pid} --tier thorough",
            "evidence_file": f"/verif/evidence/{pid}.json",
            "replay_cmd_template": f"./check {pid} --replay {{path}}",
            "engine": "lean-model+correspondence",
            "level_claimed": {"category": p["category"], "text": p["text"], "design_ref": p["design_ref"]},
            "level_note": p["note"],
            "technique": p["technique"],
        })
    na = [{"property_id": pid, "reason": claims.NOT_YET.get(pid, "check not built yet (work in progress, see DESIGN.md §7)")}
          for pid in ALL if pid not in PROPS]
    m = {
        "version": 1,
        "setup_cmd": "./setup.sh",
        "hooks": {
            "guard": "verif-hooks",
            "enable": "cargo feature `verif-hooks` of the momtrop crate; /verif/harness depends on /repo with features [\"log\",\"verif-hooks\"]",
            "baseline_off_cmd": "cd /repo && cargo test --workspace --no-fail-fast --offline",
            "source_commits": claims.HOOK_COMMITS,
            "add_only": True,
        },
        "engines": [
            {"name": "lean-model+correspondence", "path": "/verif/lean, /verif/harness, /verif/mtv",
             "serves_properties": [c["property_id"] for c in checks],
             "kind_free_text": "Lean 4 theorems about a hand-written model (lake build + #print axioms audit); the model's executable definitions at Float are run against the real Rust code through a JSON line protocol (correspondence); exact-arithmetic oracles in Python search for failing inputs"},
        ],
        "checks": checks,
        "notes": claims.NOTES,
        "not_applicable": na,
    }
    return m


def main():
    m = build()
    schema = json.load(open("/root/.vp/MANIFEST.schema.json"))
    jsonschema.validate(m, schema)
    json.dump(m, open(os.path.join(VERIF, "MANIFEST.json"), "w"), indent=1)
    print("MANIFEST.json written:", len(m["checks"]), "checks,", len(m["not_applicable"]), "not claimed")
    es = json.load(open("/root/.vp/EVIDENCE.schema.json"))
    for c in m["checks"]:
        p = c["evidence_file"]
        if os.path.exists(p):
            try:
                jsonschema.validate(json.load(open(p)), es)
            except Exception as e:
                print("EVIDENCE INVALID", p, str(e)[:300])
        else:
            print("evidence missing:", p)


if __name__ == "__main__":
    main()
