#!/bin/bash
# usage: tools_collect4.sh C20  -- eighth-round deliverables (/tmp/wt/<ID>r13) go to /verif/seeded/<ID>-r13-k/
id=$1
for k in 1 2 3; do
  if [ -f /tmp/wt/${id}r13/mutation$k.patch ]; then
    d=/verif/seeded/$id-r13-$k; mkdir -p $d
    cp /tmp/wt/${id}r13/mutation$k.patch $d/patch.diff
    [ -f /tmp/wt/${id}r13/demo$k.rs ] && cp /tmp/wt/${id}r13/demo$k.rs $d/demo.rs
    [ -f /tmp/wt/${id}r13/REPORT.md ] && cp /tmp/wt/${id}r13/REPORT.md $d/REPORT.md
  fi
done
git -C /repo worktree remove --force /tmp/wt/${id}r13
ls /verif/seeded | grep -c r13
