#!/bin/bash
# Build the framework from files on disk only (offline): Lean model + proofs + driver, Rust harness.
set -e
cd "$(dirname "$0")"
export CARGO_NET_OFFLINE=true
(cd lean && lake build Momtrop driver)
[ -f harness/Cargo.lock ] || cp /repo/Cargo.lock harness/Cargo.lock
(cd harness && cargo build --release --offline)
# the second executor: /repo with its default features (no `log`, no hooks), debug assertions and overflow checks on
[ -f harness_nolog/Cargo.lock ] || cp /repo/Cargo.lock harness_nolog/Cargo.lock
(cd harness_nolog && cargo build --release --offline)
